#!/usr/bin/env python3
"""Seeded property-breaking changes (produced by independent sub-agents).

  tools/seed.py verify <ID> <worktree>   confirm: 145 tests pass with the change, demo fails with / passes without;
                                         store patch, demo, notes and meta.json under /verif/seeded/<ID>/
  tools/seed.py detect <ID> [tier]       apply seeded/<ID>/patch.diff to /repo, run the check of its property
                                         (and record which signatures fire), then undo the change
  tools/seed.py detect-all [tier]
"""
import json, os, re, shutil, subprocess, sys, time

ROOT = "/verif"
SEEDED = os.path.join(ROOT, "seeded")
ENV = dict(os.environ, CARGO_NET_OFFLINE="true")


def sh(cmd, cwd=None, timeout=3600):
    p = subprocess.run(cmd, shell=True, cwd=cwd, env=ENV, stdout=subprocess.PIPE, stderr=subprocess.STDOUT, text=True, timeout=timeout)
    return p.returncode, p.stdout


def verify(sid, wt):
    src = "/tmp/seed/out/%s" % sid
    dst = os.path.join(SEEDED, sid)
    os.makedirs(dst, exist_ok=True)
    for f in ("patch.diff", "demo.rs", "notes.md"):
        shutil.copy(os.path.join(src, f), os.path.join(dst, f))
    demo = open(os.path.join(dst, "demo.rs")).read()
    head = "\n".join(demo.splitlines()[:30])
    m = re.search(r"([\w./-]*tests/[\w.-]+\.rs)", head)
    place = re.sub(r"^/?tmp/seed/w\d+/", "", m.group(1)).lstrip("/") if m else None
    m = re.search(r"(cargo (?:test|nextest)[^\n`]*)", head)
    run = m.group(1).strip() if m else None
    meta = {"id": sid, "property": sid[:3], "placement": place, "run": run}
    old_meta = os.path.join(dst, "meta.json")
    if os.path.exists(old_meta):
        try:
            meta["detection"] = json.load(open(old_meta)).get("detection", {})
        except ValueError:
            pass
    if not place or not run:
        meta["error"] = "could not find placement/run line in demo.rs"
        json.dump(meta, open(os.path.join(dst, "meta.json"), "w"), indent=1)
        print(json.dumps(meta, indent=1))
        return 1
    if "--offline" not in run:
        run += " --offline"
    # the worktree must carry exactly the patch
    # re-create the state from the patch (agents may have left something else behind)
    sh("git checkout -- . && git apply %s" % os.path.join(dst, "patch.diff"), cwd=wt)
    rc, out = sh("cargo nextest run --workspace --no-fail-fast --offline 2>&1 | tail -3", cwd=wt)
    meta["tests_with_change"] = "145 passed" in out and "failed" not in out.split("Summary")[-1]
    meta["tests_with_change_summary"] = out.strip().splitlines()[-1] if out.strip() else ""
    target = os.path.join(wt, place)
    os.makedirs(os.path.dirname(target), exist_ok=True)
    shutil.copy(os.path.join(dst, "demo.rs"), target)
    rc1, out1 = sh(run, cwd=wt)
    meta["demo_with_change_fails"] = rc1 != 0 and ("test result: FAILED" in out1 or "failed" in out1)
    # (git stash is shared between worktrees: switch with checkout/apply instead)
    sh("git checkout -- .", cwd=wt)
    rc2, out2 = sh(run, cwd=wt)
    meta["demo_without_change_passes"] = rc2 == 0
    sh("git apply %s" % os.path.join(dst, "patch.diff"), cwd=wt)
    os.remove(target)
    meta["confirmed"] = bool(meta["tests_with_change"] and meta["demo_with_change_fails"] and meta["demo_without_change_passes"])
    meta["ran"] = ["cargo nextest run --workspace --no-fail-fast --offline (with change)", run + " (with change)", run + " (change reverted)"]
    notes = open(os.path.join(dst, "notes.md")).read()
    meta["needs"] = notes[:1500]
    json.dump(meta, open(os.path.join(dst, "meta.json"), "w"), indent=1)
    print(json.dumps({k: v for k, v in meta.items() if k != "needs"}, indent=1))
    return 0 if meta["confirmed"] else 1


def detect(sid, tier="quick", props=None):
    dst = os.path.join(SEEDED, sid)
    patch = os.path.join(dst, "patch.diff")
    rc, out = sh("git status --porcelain --untracked-files=no", cwd="/repo")
    if out.strip():
        print("REFUSING: /repo has local changes:\n" + out)
        return 2
    rc, out = sh("git apply %s" % patch, cwd="/repo")
    if rc != 0:
        print("patch does not apply:", out)
        return 2
    res = {}
    try:
        for prop in (props or [sid[:3]]):
            t0 = time.time()
            rc, out = sh("./check %s %s" % (prop, tier), cwd=ROOT, timeout=7200)
            sigs = re.findall(r"signature=(\S+) count=(\d+)", out)
            res[prop] = {"exit": rc, "tier": tier, "signatures": [s for s, _ in sigs][:12], "wall_s": round(time.time() - t0, 1)}
            print(sid, prop, tier, "exit", rc, "signatures:", len(sigs), [s for s, _ in sigs][:4])
    finally:
        sh("git checkout -- .", cwd="/repo")
    mp = os.path.join(dst, "meta.json")
    meta = json.load(open(mp)) if os.path.exists(mp) else {"id": sid}
    meta.setdefault("detection", {}).update(res)
    json.dump(meta, open(mp, "w"), indent=1)
    return 0


def table():
    rows = []
    for sid in sorted(os.listdir(SEEDED)):
        mp = os.path.join(SEEDED, sid, "meta.json")
        if not os.path.exists(mp):
            continue
        m = json.load(open(mp))
        notes = open(os.path.join(SEEDED, sid, "notes.md")).read()
        patch = open(os.path.join(SEEDED, sid, "patch.diff")).read()
        files = sorted(set(re.findall(r"^\+\+\+ b/(\S+)", patch, re.M)))
        det = m.get("detection", {})
        caught = [(p, d) for p, d in det.items() if d.get("exit") == 1]
        sigs = []
        for p, d in caught:
            sigs += d.get("signatures", [])[:3]
        kinds = sorted(set("|".join(x.split("|")[1:3]) for x in sigs))[:3]
        first = next((l.strip("# ").strip() for l in notes.splitlines() if l.strip() and not l.startswith("# C")), "")
        rows.append("| %s | %s | %s | %s | %s |" % (sid, ", ".join(files), "yes" if m.get("confirmed") else "NO", ", ".join("%s %s" % (p, d.get("tier")) for p, d in caught) or "**missed**", "; ".join(kinds)))
    out = ["# Seeded property-breaking changes and the checks that catch them", "",
           "Generated by `tools/seed.py table` from `seeded/*/meta.json`. *confirmed* = the 145 existing tests pass with the change and the",
           "author's demonstration fails with it and passes without it (re-run here by `tools/seed.py verify`). *caught by* = the property's check",
           "that exits 1 with the change applied to /repo (`tools/seed.py detect`), with the kinds of signature that fire.", "",
           "| id | files changed | confirmed | caught by | signatures (kind, operation) |", "|---|---|---|---|---|"] + rows
    open(os.path.join(ROOT, "design", "seeded.md"), "w").write("\n".join(out) + "\n")
    print("\n".join(out))


if __name__ == "__main__":
    a = sys.argv[1:]
    if a[0] == "verify":
        sys.exit(verify(a[1], a[2]))
    if a[0] == "detect":
        sys.exit(detect(a[1], a[2] if len(a) > 2 else "quick", a[3:] or None))
    if a[0] == "table":
        table()
        sys.exit(0)
    if a[0] == "detect-all":
        for sid in sorted(os.listdir(SEEDED)):
            if os.path.exists(os.path.join(SEEDED, sid, "patch.diff")):
                detect(sid, a[1] if len(a) > 1 else "quick")
        # leave /repo built without any seeded change
        sh("./check setup", cwd=ROOT)
