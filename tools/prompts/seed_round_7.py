import sys, json, os
pid, wt = sys.argv[1], sys.argv[2]
prop = open('/tmp/seed/prop_%s.txt' % pid).read()
prev = []
for suf in ['', '_b', '_c', '_d', '_e']:
    f = '/tmp/seed/prev/%s%s.md' % (pid, suf)
    if os.path.exists(f):
        first = [l.strip() for l in open(f).read().splitlines() if l.strip() and not l.startswith('#')][:6]
        prev.append(' '.join(first)[:700])
prevtxt = '\n'.join('  (%d) %s' % (i + 1, p) for i, p in enumerate(prev))
out = '/tmp/seed/out/%s_f' % pid
print(f"""You are helping to evaluate a verification effort for the Rust workspace jelmer/deb822-lossless (lossless/lossy parsers and editors for Debian deb822 files: control, relations, copyright, DEP-3, APT sources).

You have your own scratch git worktree of the repository at {wt} (a detached checkout; work ONLY inside it; never touch /repo or /verif, and do not read anything under /verif). The sandbox has no network: always pass --offline to cargo, and use -j4 (the machine is shared). Build and test inside the worktree, e.g. `cd {wt} && cargo nextest run -j4 --workspace --no-fail-fast --offline` (145 tests pass on the unchanged tree; fall back to `cargo test -j4 --workspace --offline` if needed).

Here is a semantic property that the code is supposed to satisfy:

{prop}
Your job: produce ONE realistic change to the library source (a plausible bug a maintainer could introduce in a refactor, a clean-up or an "optimisation") that BREAKS this property while the workspace STILL COMPILES and ALL 145 EXISTING TESTS STILL PASS. Five other reviewers already proposed, for this property:
{prevtxt}
Propose something of a clearly DIFFERENT kind from all five. Ideas: TWO cooperating sites that each look fine alone (e.g. a helper's contract shifted by one and only one of its callers adapted); a change that only shows after a SEQUENCE of two or more operations on the same object (edit, then another edit or a re-read; stale cached/derived state; an index computed before a mutation and used after it); behaviour that depends on POSITION (first vs last vs only element, last paragraph without final newline, entry right before a comment); a boundary in a loop over characters (multi-byte UTF-8, CR LF, tab vs space, empty string); an Option/Result combinator swapped (or_else/and_then, unwrap_or vs unwrap_or_default); a PartialEq/Ord/Hash impl that disagrees with Display in a corner; a sort comparator that is not total or not stable in one corner; an error path that now returns Ok with partial data; a trimming function changed from trim() to trim_end() or the reverse in one place, and make it need something specific to manifest (an unusual but legal input, a particular position, a particular combination of optional parts, a sequence of operations) rather than something any ordinary use would expose at once. Do not edit or delete existing tests, do not touch Cargo features named verif-hooks or the file src/verif.rs, and keep the patch small (ideally under 30 changed lines).

Deliverables, all under {out}/ (create the directory):
1. patch.diff — the output of `git -C {wt} diff` for your change (library source only).
2. demo.rs — a self-contained Rust integration test (or a few #[test] functions) that FAILS with your change applied and PASSES on the unchanged tree; say in a comment at its top in which file it must be placed, as a path relative to the repository root (e.g. `debian-control/tests/x.rs` or `tests/x.rs`), and the cargo command to run it. Verify both outcomes yourself (save your change with `git -C {wt} diff > {out}/patch.diff`, revert with `git -C {wt} checkout -- .`, re-apply with `git -C {wt} apply {out}/patch.diff`; do NOT use `git stash`).
3. notes.md — 5-15 lines: which clause of the property the change breaks, what exactly is needed for it to manifest, and the exact commands you ran with their outcomes (existing tests with the change: pass count; demo with the change: fails; demo without: passes).

When done, leave the worktree with your change applied and reply with a short summary (what you changed, what manifests it).""")
