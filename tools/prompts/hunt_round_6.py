import sys
pid, wt = sys.argv[1], sys.argv[2]
prop = open('/tmp/seed/prop_%s.txt' % pid).read()
known = open('/tmp/seed/hunt/%s/findings.md' % pid).read() + '\n\n==================== SECOND PREVIOUS REPORT (already dealt with) ====================\n' + open('/tmp/seed/hunt3/%s/findings.md' % pid).read() + '\n\n==================== THIRD PREVIOUS REPORT (already dealt with) ====================\n' + open('/tmp/seed/hunt5/%s/findings.md' % pid).read()
print(f"""You are helping to evaluate the Rust workspace jelmer/deb822-lossless (lossless/lossy parsers and editors for Debian deb822 files: control, relations, copyright, DEP-3, APT sources).

You have your own scratch git worktree of the repository at {wt} (a detached checkout; work ONLY inside it; never touch /repo or /verif, and do not read anything under /verif). The sandbox has no network: always pass --offline to cargo. Build and test inside the worktree, e.g. `cd {wt} && cargo nextest run --workspace --no-fail-fast --offline` (145 tests pass; fall back to `cargo test --workspace --offline`).

Here is a semantic property that the code is supposed to satisfy for EVERY input / sequence of operations:

{prop}
Your job is bug hunting on the code AS IT IS (do not change library source): find concrete inputs or sequences of public-API calls for which the current code VIOLATES this property. A previous reviewer already hunted once; their report is appended below under "PREVIOUS REPORT". Everything in it has been dealt with (the in-domain items were fixed in the tree you now have, the others were judged outside the property's domain: carriage returns inside lines, whitespace-only continuation lines, paragraphs without any field, case-insensitive field names, a '#' comment line in column 0 between a field and its continuation, values that cannot be represented, ':' inside the upstream part of a version, '${{var}}' used as a version). Do NOT report those again or variations of them. Look for NEW kinds of violation: read the implementation again with fresh eyes (the functions the property talks about, and the helpers they call, including code paths the previous report does not mention), and concentrate on
 - longer sequences (3-6 operations) mixing different operations on the same object, including operations from neighbouring features (e.g. editing after wrap_and_sort, editing an object obtained from another object, converting between lossy and lossless forms and back, cloning handles, re-using a value after it was inserted somewhere),
 - combinations of three or more optional parts or layout features,
 - first/last/only positions, duplicates, empty collections, values containing the separator characters of their own field format,
 - entry points and accessors the previous reports did not exercise at all: go through the public API of the files the property is about function by function (every pub fn, every trait impl such as From/Display/FromStr/PartialEq/Ord/IntoIterator, every constructor such as new()/empty()/default()) and make sure each one has been called with at least one unusual but legal argument,
 - getters and conversions that derive a value from several fields or from a parsed sub-value (paths, URLs, lists, checksums, dates), called on legal values that lack an optional part.
TRY your ideas by writing small integration tests in the relevant crate's tests/ directory and running them. Spend real effort: at least 40 different new probes before concluding that nothing is wrong. Keep any random/brute-force test bounded (a few seconds, well under 1 GB of memory). Only count behaviour that contradicts the property's text for inputs inside the domain the property describes.

Deliverables under /tmp/seed/hunt6/{pid}/ (create the directory):
1. findings.md — for each DISTINCT NEW violation found (at most 6, most convincing first): the clause violated, the minimal input / call sequence, what the property requires, what the code does, and the function (file:line) at fault as far as you can tell. If you found nothing new, say so and list the kinds of probes you tried (one line each).
2. demo.rs — an integration test file with one #[test] per finding that FAILS on the current tree exactly because of that violation; say in a comment at its top where it must be placed (path relative to the repository root) and the cargo command to run it (use several files, one per crate, if needed). Leave no file of yours in the worktree.

Reply with a short summary: number of NEW violations found and one line each.

==================== PREVIOUS REPORT (already dealt with) ====================
{known}""")
