import sys
pid, wt = sys.argv[1], sys.argv[2]
prop = open('/tmp/seed/prop_%s.txt' % pid).read()
print(f"""You are helping to evaluate the Rust workspace jelmer/deb822-lossless (lossless/lossy parsers and editors for Debian deb822 files: control, relations, copyright, DEP-3, APT sources).

You have your own scratch git worktree of the repository at {wt} (a detached checkout; work ONLY inside it; never touch /repo or /verif, and do not read anything under /verif). The sandbox has no network: always pass --offline to cargo. Build and test inside the worktree, e.g. `cd {wt} && cargo nextest run --workspace --no-fail-fast --offline` (145 tests pass; fall back to `cargo test --workspace --offline`).

Here is a semantic property that the code is supposed to satisfy for EVERY input / sequence of operations:

{prop}
Your job is bug hunting on the code AS IT IS (do not change library source): find concrete inputs or sequences of public-API calls for which the current code VIOLATES this property. Read the implementation carefully (the functions the property talks about, and the helpers they call), think about which cases the authors may have overlooked (unusual but legal layouts of whitespace / comments / newlines / missing final newline, empty values, duplicates, first/last/only positions, combinations of optional parts, sequences of two or three operations on the same object, handles obtained before an edit, values containing the separator characters, case differences, ...), and TRY them by writing small integration tests in the relevant crate's tests/ directory and running them. Spend real effort: try at least 30 different probes across the different clauses of the property before concluding that nothing is wrong. Only count behaviour that contradicts the property's text for inputs inside the domain the property describes (e.g. if the property speaks of well-formed documents, a malformed document being rejected is not a violation). Do not report panics/odd behaviour unrelated to this property.

Deliverables under /tmp/seed/hunt/{pid}/ (create the directory):
1. findings.md — for each DISTINCT violation found (at most 6, most convincing first): the clause violated, the minimal input / call sequence, what the property requires, what the code does, and the function (file:line) at fault as far as you can tell. If you found nothing, say so and list the kinds of probes you tried (one line each).
2. demo.rs — an integration test file with one #[test] per finding that FAILS on the current tree exactly because of that violation (assert what the property requires); say in a comment at its top where it must be placed (path relative to the repository root, e.g. `debian-control/tests/hunt.rs`) and the cargo command to run it. Leave no file of yours in the worktree's src directories.

Reply with a short summary: number of violations found and one line each.""")
