import sys
pid, wt, variant = sys.argv[1], sys.argv[2], sys.argv[3]
import json
if variant == 'c':
    r1=json.load(open('/tmp/seed/round1.json'))[pid]; r2=json.load(open('/tmp/seed/round2.json'))[pid]
    variant = 'Two other reviewers already proposed, for this property: (1) "'+r1+'"; (2) "'+r2+'". Propose something of a clearly DIFFERENT kind, and make it one that only shows after a SEQUENCE of at least two API operations on the same object (or through two code sites that each look fine alone), or only for a combination of two independent input features - not a single call on a single odd input.'
elif variant == 'b':
    variant = 'Another reviewer already proposed, for this property, a change of this kind: "' + json.load(open('/tmp/seed/round1.json'))[pid] + '". Propose a change of a clearly DIFFERENT kind: a different function or mechanism and, if possible, a different clause of the property.'
prop = open('/tmp/seed/prop_%s.txt' % pid).read()
print(f"""You are helping to evaluate a verification effort for the Rust workspace jelmer/deb822-lossless (lossless/lossy parsers and editors for Debian deb822 files: control, relations, copyright, DEP-3, APT sources).

You have your own scratch git worktree of the repository at {wt} (a detached checkout; work ONLY inside it; never touch /repo or /verif, and do not read anything under /verif). The sandbox has no network: always pass --offline to cargo. Build and test inside the worktree, e.g. `cd {wt} && cargo nextest run --workspace --no-fail-fast --offline` (145 tests pass on the unchanged tree; fall back to `cargo test --workspace --offline` if needed).

Here is a semantic property that the code is supposed to satisfy:

{prop}
Your job: produce ONE realistic change to the library source (a plausible bug a maintainer could introduce in a refactor or "optimisation": an off-by-one, a dropped token or branch, a swapped comparison, append-instead-of-replace, a wrong field-name literal, a missing separator, first-vs-last, any-vs-all, a forgotten special case, two sites that each look fine alone ...) that BREAKS this property while the workspace STILL COMPILES and ALL 145 EXISTING TESTS STILL PASS. {variant}
Prefer a change that needs something specific to manifest (an unusual but legal input, a multi-step sequence of operations, a particular layout of whitespace/comments/newlines, a particular combination of optional parts) rather than one that any ordinary use would expose at once. Do not edit or delete existing tests, do not touch Cargo features named verif-hooks or the file src/verif.rs, and keep the patch small (ideally under 30 changed lines).

Deliverables, all under /tmp/seed/out/{pid}{'' if variant=='' else ('_c' if variant.startswith('Two other') else '_b')}/ (create the directory):
1. patch.diff — the output of `git -C {wt} diff` for your change (library source only).
2. demo.rs — a self-contained Rust integration test (or a few #[test] functions) that FAILS with your change applied and PASSES on the unchanged tree; say in a comment at its top in which crate's tests/ directory (or which file) it must be placed and how to run it. Verify both outcomes yourself (to switch between changed and unchanged tree save your change with `git -C {wt} diff > /tmp/seed/out/{pid}{'' if variant=='' else ('_c' if variant.startswith('Two other') else '_b')}/patch.diff`, revert with `git -C {wt} checkout -- .`, and re-apply with `git -C {wt} apply <that file>`; do NOT use `git stash`: the stash is shared between worktrees and other people are working in sibling worktrees).
3. notes.md — 5-15 lines: which clause of the property the change breaks, what exactly is needed for it to manifest (input, sequence, layout), and the exact commands you ran with their outcomes (existing tests with the change: pass count; demo with the change: fails; demo without: passes).

When done, leave the worktree with your change applied (not stashed) and reply with a short summary (what you changed, what manifests it).""")
