#!/bin/sh
# Source-coverage measurement of the quick workloads (DESIGN.md §10.2). Not a registered check: it builds the
# harness a second time with -Cinstrument-coverage in a scratch directory, runs all 16 shards of every property's
# quick workload with that binary, merges the profiles and writes design/coverage.md (per-file table of the
# library's regions/functions executed, and the list of library functions no workload executed).
#   usage: tools/coverage.sh [scratch-dir]      (default /tmp/cov; removed at the end unless KEEP=1)
set -e
S=${1:-/tmp/cov}
V=$(cd "$(dirname "$0")/.." && pwd)
T=$(rustc +nightly --print sysroot)/lib/rustlib/x86_64-unknown-linux-gnu/bin
mkdir -p "$S/prof" "$S/out"
cd "$V/harness"
RUSTFLAGS="-Cinstrument-coverage" CARGO_NET_OFFLINE=true LLVM_PROFILE_FILE="$S/build-%p.profraw" \
  cargo +nightly build --offline --profile verif --target-dir "$S/target" >/dev/null 2>&1
cd "$S"
for p in $(seq -w 1 20); do
  P=C$p
  for i in $(seq 0 15); do
    LLVM_PROFILE_FILE="$S/prof/$P-$i.profraw" VMON_NO_STACKPROBE=1 timeout 1800 "$S/target/verif/vmon" run $P --tier quick --seed ${VERIF_SEED:-1} \
      --shard $i/16 --out "$S/out/$P-w$i" >/dev/null 2>&1 &
  done
  wait
done
"$T/llvm-profdata" merge -sparse prof/*.profraw -o all.profdata
"$T/llvm-cov" export target/verif/vmon -instr-profile=all.profdata \
  --ignore-filename-regex='(\.cargo|rustc|/verif/|rustup)' -format=text > cov.json 2>/dev/null
python3 "$V/tools/coverage_report.py" cov.json > "$V/design/coverage.md"
find /repo -name '*.profraw' -delete
[ -n "$KEEP" ] || rm -rf "$S"
