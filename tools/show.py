#!/usr/bin/env python3
"""show replay witnesses compactly: tools/show.py C11 [substring-of-signature]"""
import json, sys, glob, os
prop = sys.argv[1]; pat = sys.argv[2] if len(sys.argv) > 2 else ""
rows = []
for f in glob.glob("/verif/replays/%s/*.json" % prop):
    r = json.load(open(f))
    if pat in r["signature"]:
        rows.append((len(json.dumps(r["detail"])), r, f))
rows.sort(key=lambda x: x[0])
seen = set()
for _, r, f in rows:
    key = "|".join(r["signature"].split("|")[1:3])
    if key in seen: continue
    seen.add(key)
    d = r["detail"]
    print("==", r["signature"], "x%d" % r["count"], os.path.basename(f))
    for k, v in d.items():
        s = json.dumps(v, ensure_ascii=False)
        print("   %s: %s" % (k, s[:700]))
