//! Relationship-field grammar generator (Debian Policy §7.1): emits
//! (model, text) pairs so the intended content is known by construction.
use crate::rt::Rng;

#[derive(Clone, Debug, PartialEq, Eq, PartialOrd, Ord, Hash)]
pub struct MRel {
    pub name: String,
    pub archqual: Option<String>,
    /// (operator, version text)
    pub version: Option<(String, String)>,
    /// (negated, name)
    pub archs: Option<Vec<(bool, String)>>,
    /// groups of (negated, name)
    pub profiles: Vec<Vec<(bool, String)>>,
}

impl MRel {
    pub fn simple(name: &str) -> MRel {
        MRel { name: name.to_string(), archqual: None, version: None, archs: None, profiles: vec![] }
    }
    /// canonical text: `name[:archqual] (op version) [archs] <profiles>`
    pub fn canonical(&self) -> String {
        let mut s = self.name.clone();
        if let Some(a) = &self.archqual {
            s.push(':');
            s.push_str(a);
        }
        if let Some((op, v)) = &self.version {
            s.push_str(&format!(" ({} {})", op, v));
        }
        if let Some(a) = &self.archs {
            s.push_str(" [");
            s.push_str(&a.iter().map(|(n, a)| format!("{}{}", if *n { "!" } else { "" }, a)).collect::<Vec<_>>().join(" "));
            s.push(']');
        }
        for g in &self.profiles {
            s.push_str(" <");
            s.push_str(&g.iter().map(|(n, a)| format!("{}{}", if *n { "!" } else { "" }, a)).collect::<Vec<_>>().join(" "));
            s.push('>');
        }
        s
    }
}

#[derive(Clone, Debug, PartialEq, Eq, PartialOrd, Ord, Hash)]
pub enum MItem {
    Entry(Vec<MRel>),
    Empty,
    Substvar(String),
}

#[derive(Clone, Debug, Default)]
pub struct GRel {
    pub items: Vec<MItem>,
    pub text: String,
    pub features: Vec<&'static str>,
}

impl GRel {
    pub fn entries(&self) -> Vec<Vec<MRel>> {
        self.items.iter().filter_map(|i| if let MItem::Entry(e) = i { Some(e.clone()) } else { None }).collect()
    }
    pub fn substvars(&self) -> Vec<String> {
        self.items.iter().filter_map(|i| if let MItem::Substvar(e) = i { Some(e.clone()) } else { None }).collect()
    }
}

#[derive(Clone, Debug)]
pub struct ROpts {
    pub max_entries: usize,
    pub max_alts: usize,
    /// 0: canonical single-space layout; 1: free blanks/tabs/newlines around ',' and '|';
    /// 2: also between the components of a relation
    pub ws_level: u8,
    pub substvars: bool,
    pub empty_entries: bool,
    pub trailing_comma: bool,
    pub epochs: bool,
    pub archqual: bool,
    pub archs: bool,
    pub negated_archs: bool,
    pub profiles: bool,
    pub multi_term_profiles: bool,
    pub versions: bool,
    pub name_pool: Option<&'static [&'static str]>,
    /// line breaks between the terms inside [..] and <..> (folded fields)
    pub inner_newlines: bool,
}

impl Default for ROpts {
    fn default() -> Self {
        ROpts {
            max_entries: 4,
            max_alts: 3,
            ws_level: 2,
            substvars: false,
            empty_entries: true,
            trailing_comma: true,
            epochs: true,
            archqual: true,
            archs: true,
            negated_archs: true,
            profiles: true,
            multi_term_profiles: true,
            versions: true,
            name_pool: None,
            inner_newlines: false,
        }
    }
}

pub const NAMES: [&str; 12] = [
    "libc6", "python3-dulwich", "g++", "a", "x11-common", "libfoo2.0", "0ad", "gcc-12", "debhelper-compat", "z", "lib+plus",
    "perl",
];
pub const ARCHQUALS: [&str; 4] = ["any", "native", "amd64", "i386"];
pub const OPS: [&str; 5] = ["<<", "<=", "=", ">=", ">>"];
pub const VERSIONS: [&str; 13] = [
    "1.0", "2.3-1", "1:2.0", "1.0~rc1", "0.9+dfsg-2~bpo1", "13", "2:1.0-1+b1", "1.0-1", "0", "4.5.6~", "1:0~0", "7.1.2-3ubuntu1", "0:1.2-3",
];
pub const ARCHS: [&str; 6] = ["amd64", "i386", "linux-any", "any-arm64", "hurd-i386", "all"];
pub const PROFILES: [&str; 5] = ["nocheck", "stage1", "cross", "pkg.foo.bar", "nodoc"];
pub const SUBSTVARS: [&str; 4] = ["${shlibs:Depends}", "${misc:Depends}", "${foo}", "${perl:Depends}"];

fn sep_ws(r: &mut Rng, level: u8) -> &'static str {
    if level == 0 {
        return "";
    }
    *r.pick(&["", "", " ", "  ", "\t", "\n", "\n ", " \n\t"])
}

fn comp_ws(r: &mut Rng, level: u8, feats: &mut Vec<&'static str>) -> &'static str {
    if level < 2 || r.chance(3, 4) {
        return " ";
    }
    feats.push("component-ws-variant");
    // a folded field may also break the line between the parts of a relation ("every legal whitespace placement")
    let w = *r.pick(&["", "  ", "\t", "\n "]);
    if w.contains('\n') {
        feats.push("newline-inside-relation");
    }
    w
}

pub fn gen_relation(r: &mut Rng, o: &ROpts) -> MRel {
    let name = match o.name_pool {
        Some(p) => r.pick(p).to_string(),
        None => r.pick(&NAMES).to_string(),
    };
    let mut m = MRel::simple(&name);
    if o.archqual && r.chance(1, 5) {
        m.archqual = Some(r.pick(&ARCHQUALS).to_string());
    }
    if o.versions && r.chance(1, 2) {
        let v = loop {
            let v = *r.pick(&VERSIONS);
            if !o.epochs && v.contains(':') {
                continue;
            }
            break v;
        };
        m.version = Some((r.pick(&OPS).to_string(), v.to_string()));
    }
    if o.archs && r.chance(1, 4) {
        let n = r.range(1, 3);
        let neg = o.negated_archs && r.chance(1, 2);
        let mut v = vec![];
        for _ in 0..n {
            let a = r.pick(&ARCHS).to_string();
            if !v.iter().any(|(_, x)| *x == a) {
                v.push((neg, a));
            }
        }
        m.archs = Some(v);
    }
    if o.profiles && r.chance(1, 5) {
        for _ in 0..r.range(1, 2) {
            let nt = if o.multi_term_profiles { r.range(1, 2) } else { 1 };
            let mut g = vec![];
            for _ in 0..nt {
                g.push((r.chance(1, 2), r.pick(&PROFILES).to_string()));
            }
            m.profiles.push(g);
        }
    }
    m
}

/// Write a relation with the layout freedom of `o.ws_level`.
pub fn write_relation(r: &mut Rng, o: &ROpts, m: &MRel, feats: &mut Vec<&'static str>) -> String {
    let mut s = m.name.clone();
    if let Some(a) = &m.archqual {
        s.push(':');
        s.push_str(a);
        feats.push("archqual");
    }
    if let Some((op, v)) = &m.version {
        s.push_str(comp_ws(r, o.ws_level, feats));
        s.push('(');
        if o.ws_level >= 2 && r.chance(1, 8) {
            s.push(' ');
            feats.push("blank-inside-parens");
        }
        s.push_str(op);
        s.push_str(if o.ws_level >= 2 && r.chance(1, 4) { "" } else { " " });
        s.push_str(v);
        if o.ws_level >= 2 && r.chance(1, 8) {
            s.push_str(if r.chance(1, 3) { "\t" } else { " " });
            feats.push("blank-inside-parens");
        }
        s.push(')');
        feats.push("version");
        if v.contains(':') {
            feats.push("epoch");
        }
        if v.contains('~') {
            feats.push("tilde");
        }
    }
    if let Some(a) = &m.archs {
        s.push_str(comp_ws(r, o.ws_level, feats));
        s.push('[');
        let pad = o.ws_level >= 2 && r.chance(1, 8);
        if pad {
            s.push(' ');
            feats.push("blank-inside-brackets");
        }
        for (i, (neg, a)) in a.iter().enumerate() {
            if i > 0 {
                if o.inner_newlines && r.chance(1, 4) {
                    s.push_str("\n ");
                    feats.push("inner-group-newline");
                } else {
                    s.push_str(if o.ws_level >= 2 && r.chance(1, 6) { "  " } else { " " });
                }
            }
            if *neg {
                s.push('!');
                feats.push("negated-arch");
            }
            s.push_str(a);
        }
        if pad {
            s.push(' ');
        }
        s.push(']');
        feats.push("archs");
    }
    for g in &m.profiles {
        s.push_str(comp_ws(r, o.ws_level, feats));
        s.push('<');
        let pad = o.ws_level >= 2 && r.chance(1, 8);
        if pad {
            s.push(' ');
            feats.push("blank-inside-brackets");
        }
        for (i, (neg, a)) in g.iter().enumerate() {
            if i > 0 {
                if o.inner_newlines && r.chance(1, 4) {
                    s.push_str("\n\t");
                    feats.push("inner-group-newline");
                } else {
                    s.push(' ');
                }
                feats.push("multi-term-profile");
            }
            if *neg {
                s.push('!');
            }
            s.push_str(a);
        }
        if pad {
            s.push(' ');
        }
        s.push('>');
        feats.push("profiles");
    }
    s
}

/// Generate a well-formed relationship field in the sense of property C10.
pub fn gen_field(r: &mut Rng, o: &ROpts) -> GRel {
    let mut g = GRel::default();
    let mut feats: Vec<&'static str> = vec![];
    let n = if r.chance(1, 30) { 0 } else { r.range(1, o.max_entries.max(1)) };
    let mut t = String::new();
    t.push_str(sep_ws(r, o.ws_level.min(1)));
    for i in 0..n {
        if i > 0 {
            t.push_str(sep_ws(r, o.ws_level));
            t.push(',');
            t.push_str(if o.ws_level == 0 { " " } else { sep_ws(r, o.ws_level) });
        }
        if o.substvars && r.chance(1, 5) {
            let sv = r.pick(&SUBSTVARS).to_string();
            t.push_str(&sv);
            g.items.push(MItem::Substvar(sv));
            feats.push("substvar");
            continue;
        }
        if o.empty_entries && i > 0 && r.chance(1, 12) {
            g.items.push(MItem::Empty);
            feats.push("empty-entry");
            continue;
        }
        let na = r.range(1, o.max_alts.max(1));
        let mut alts = vec![];
        for j in 0..na {
            if j > 0 {
                if o.ws_level == 0 {
                    t.push_str(" | ");
                } else {
                    t.push_str(sep_ws(r, o.ws_level));
                    t.push('|');
                    t.push_str(sep_ws(r, o.ws_level));
                }
                feats.push("alternatives");
            }
            let m = gen_relation(r, o);
            t.push_str(&write_relation(r, o, &m, &mut feats));
            alts.push(m);
        }
        g.items.push(MItem::Entry(alts));
    }
    if o.trailing_comma && n > 0 && r.chance(1, 8) {
        t.push_str(sep_ws(r, o.ws_level));
        t.push(',');
        feats.push("trailing-comma");
    }
    if o.ws_level > 0 {
        t.push_str(sep_ws(r, 1));
    }
    if t.contains('\n') {
        feats.push("newline-layout");
    }
    feats.sort();
    feats.dedup();
    g.features = feats;
    g.text = t;
    g
}

/// Shape features of arbitrary relation text, for violation signatures.
pub fn rel_shape(s: &str) -> &'static str {
    let mut depth_b = 0i32;
    let mut depth_c = 0i32;
    let mut depth_a = 0i32;
    let mut depth_p = 0i32;
    for c in s.chars() {
        match c {
            '[' => depth_b += 1,
            ']' => depth_b -= 1,
            '{' => depth_c += 1,
            '}' => depth_c -= 1,
            '<' => depth_a += 1,
            '>' => depth_a -= 1,
            '(' => depth_p += 1,
            ')' => depth_p -= 1,
            _ => {}
        }
    }
    if depth_b > 0 {
        "unterminated-bracket"
    } else if s.contains('$') && (depth_c > 0 || !s.contains('}')) {
        "unterminated-substvar"
    } else if depth_a > 0 {
        "unterminated-angle"
    } else if depth_p > 0 {
        "unterminated-paren"
    } else if !s.is_ascii() {
        "non-ascii"
    } else {
        "balanced"
    }
}
