//! Relationship-field grammar generator (model + text). Filled in with C09/C10.
