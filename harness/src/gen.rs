//! Workload generators: systematic sweeps and the deb822 grammar generator
//! that emits (model, text) pairs.
use crate::rt::Rng;

// ---------------------------------------------------------------- sweeps

/// Class representatives for the deb822 lexer (16 symbols).
pub const DEB_ALPHABET: [&str; 16] = [
    "A", "b", "-", ":", "#", " ", "\t", "\n", "\r", "é", "漢", "😀", "\u{c}", "\u{7f}", "1", "~",
];

/// Class representatives for the relation lexer (23 symbols).
pub const REL_ALPHABET: [&str; 23] = [
    "a", "1", ".", ":", "|", ",", "(", ")", "[", "]", "!", "<", ">", "=", "$", "{", "}", " ", "\t",
    "\r", "\n", "@", "é",
];

/// Number of strings of length <= max_len over an alphabet of n symbols.
pub fn sweep_count(n: usize, max_len: u32) -> u64 {
    let mut t = 0u64;
    let mut p = 1u64;
    for _ in 0..=max_len {
        t += p;
        p *= n as u64;
    }
    t
}

/// idx -> string (shortest first). Injective, so distinctness is by construction.
pub fn sweep_string(alpha: &[&str], mut idx: u64, out: &mut String) {
    out.clear();
    let n = alpha.len() as u64;
    let mut len = 0u32;
    let mut p = 1u64;
    while idx >= p {
        idx -= p;
        p *= n;
        len += 1;
    }
    for _ in 0..len {
        out.push_str(alpha[(idx % n) as usize]);
        idx /= n;
    }
}

// ---------------------------------------------------------------- deb822 grammar

#[derive(Clone, Debug, PartialEq, Eq)]
pub struct GField {
    pub name: String,
    /// the value's non-empty lines (indentation / colon whitespace removed)
    pub lines: Vec<String>,
}
impl GField {
    pub fn value(&self) -> String {
        self.lines.join("\n")
    }
}

#[derive(Clone, Debug, Default)]
pub struct GDoc {
    pub paras: Vec<Vec<GField>>,
    pub text: String,
    /// all comment lines in file order (without newline)
    pub comments: Vec<String>,
    pub features: Vec<&'static str>,
}

impl GDoc {
    pub fn model(&self) -> Vec<Vec<(String, String)>> {
        self.paras
            .iter()
            .map(|p| p.iter().map(|f| (f.name.clone(), f.value())).collect())
            .collect()
    }
}

#[derive(Clone, Debug)]
pub struct GOpts {
    pub max_paras: usize,
    pub max_fields: usize,
    pub max_lines: usize,
    pub comments: bool,
    /// allow a comment as the last line of a paragraph / of the file
    pub comment_after_last_field: bool,
    pub unicode: bool,
    pub dup_names: bool,
    pub allow_unterminated: bool,
    pub allow_empty_values: bool,
    pub exotic_names: bool,
    pub leading_trailing_blank: bool,
    /// restrict names to this pool (edit-history workloads with collisions)
    pub name_pool: Option<&'static [&'static str]>,
    /// whitespace-only continuation lines between the lines of a value (error-free for the
    /// readers, they carry no value line); used by the reformatting monitors
    pub blank_continuations: bool,
}

impl Default for GOpts {
    fn default() -> Self {
        GOpts {
            max_paras: 3,
            max_fields: 4,
            max_lines: 3,
            comments: true,
            comment_after_last_field: true,
            unicode: true,
            dup_names: true,
            allow_unterminated: true,
            allow_empty_values: true,
            exotic_names: true,
            leading_trailing_blank: true,
            name_pool: None,
            blank_continuations: false,
        }
    }
}

const NAME_START: &[u8] = b"ABCDEFGHIJKLMNOPQRSTUVWXYZabcdefghijklmnopqrstuvwxyz0123456789!\"$%&'()*+,./;<=>?@[\\]^_`{|}~";
const NAME_REST_EXTRA: &[u8] = b"-#";
const COMMON_NAMES: [&str; 12] = [
    "Source", "Package", "Depends", "Description", "Maintainer", "X-Foo", "Version", "Files",
    "Architecture", "a", "Z9", "Build-Depends",
];
const WORDS: [&str; 17] = [
    "foo", "bar (>= 1.0)", "lib-x,", "a:b", "#not-comment", "x # y", "http://e.org/", ".", "é漢😀",
    "tab\there", "trail  ", "\u{2028}sep", "\u{85}nel", "-dash", ":colon-first", "::", "\u{3000}wide",
];
pub const COLON_WS: [&str; 5] = ["", " ", "  ", "\t", " \t"];
pub const INDENTS: [&str; 4] = [" ", "\t", "   ", " \t"];

pub fn gen_name(r: &mut Rng, o: &GOpts) -> String {
    if let Some(pool) = o.name_pool {
        return r.pick(pool).to_string();
    }
    if !o.exotic_names || r.chance(2, 3) {
        return r.pick(&COMMON_NAMES).to_string();
    }
    let mut s = String::new();
    s.push(*r.pick(NAME_START) as char);
    for _ in 0..r.below(6) {
        if r.chance(1, 5) {
            s.push(*r.pick(NAME_REST_EXTRA) as char);
        } else {
            s.push(*r.pick(NAME_START) as char);
        }
    }
    s
}

/// A non-empty value line: does not start with a blank.
pub fn gen_line(r: &mut Rng, o: &GOpts, uniq: &mut u32, cont: bool) -> String {
    *uniq += 1;
    let mut s = String::new();
    let nw = r.range(0, 2);
    for i in 0..nw {
        let w = loop {
            let w = *r.pick(&WORDS);
            if !o.unicode && !w.is_ascii() {
                continue;
            }
            break w;
        };
        if i > 0 {
            s.push(' ');
        }
        s.push_str(w);
    }
    if !s.is_empty() && r.chance(1, 2) {
        s.push(' ');
    }
    let tok = format!("u{}", uniq);
    if r.chance(1, 2) || s.is_empty() {
        s = format!("{}{}{}", tok, if s.is_empty() { "" } else { " " }, s);
    } else {
        s.push_str(&tok);
    }
    if r.chance(1, 8) {
        s.push_str("  ");
    }
    // (a continuation line may start with '#': only a '#' in column 0 starts a comment)
    let _ = cont;
    debug_assert!(!s.starts_with(' ') && !s.starts_with('\t') && !s.is_empty());
    s
}

fn gen_comment(r: &mut Rng, uniq: &mut u32, out: &mut GDoc) -> String {
    *uniq += 1;
    let c = match r.below(4) {
        0 => format!("#c{}", uniq),
        1 => format!("# c{} Foo: bar", uniq),
        2 => format!("#c{} é漢 ", uniq),
        _ => format!("## c{}\t#", uniq),
    };
    out.comments.push(c.clone());
    c
}

/// Generate a well-formed deb822 document in the sense of property C03.
pub fn gen_doc(r: &mut Rng, o: &GOpts) -> GDoc {
    let mut d = GDoc::default();
    let mut uniq = 0u32;
    let mut t = String::new();
    let mut feats: Vec<&'static str> = vec![];
    let np = r.range(if o.max_paras == 0 { 0 } else { 1 }, o.max_paras.max(1));
    let np = if o.max_paras == 0 { 0 } else if r.chance(1, 40) { 0 } else { np };

    // leading material
    if o.leading_trailing_blank && r.chance(1, 6) {
        for _ in 0..r.range(1, 2) {
            t.push('\n');
        }
        feats.push("leading-blank");
    }
    if o.comments && r.chance(1, 5) {
        // comment block at the file start, followed by a blank line
        for _ in 0..r.range(1, 2) {
            let c = gen_comment(r, &mut uniq, &mut d);
            t.push_str(&c);
            t.push('\n');
        }
        t.push('\n');
        feats.push("comment-file-start");
    }
    for pi in 0..np {
        if pi > 0 {
            let nb = r.range(1, 3);
            for _ in 0..nb {
                t.push('\n');
            }
            if nb > 1 {
                feats.push("multi-blank");
            }
            if o.comments && r.chance(1, 5) {
                // a free-standing comment between paragraphs
                let c = gen_comment(r, &mut uniq, &mut d);
                t.push_str(&c);
                t.push('\n');
                t.push('\n');
                feats.push("comment-between-paragraphs");
            }
        }
        let nf = r.range(1, o.max_fields.max(1));
        let mut para: Vec<GField> = vec![];
        for fi in 0..nf {
            if o.comments && r.chance(1, 6) {
                let c = gen_comment(r, &mut uniq, &mut d);
                t.push_str(&c);
                t.push('\n');
                feats.push(if fi == 0 { "comment-before-first-field" } else { "comment-between-fields" });
            }
            let name = if o.dup_names && !para.is_empty() && r.chance(1, 6) {
                feats.push("dup-name");
                r.pick(&para).name.clone()
            } else {
                let mut n = gen_name(r, o);
                if !o.dup_names {
                    let mut tries = 0;
                    while para.iter().any(|f| f.name == n) {
                        n = gen_name(r, o);
                        tries += 1;
                        if tries > 20 {
                            n = format!("{}{}", n, para.len());
                        }
                    }
                }
                n
            };
            t.push_str(&name);
            t.push(':');
            let shape = if o.allow_empty_values { r.below(10) } else { r.range(2, 9) };
            let mut lines: Vec<String> = vec![];
            match shape {
                0 => {
                    // empty value
                    t.push_str(*r.pick(&COLON_WS[..3]));
                    feats.push("empty-value");
                }
                1 => {
                    // empty first line, then continuation lines
                    t.push_str(*r.pick(&COLON_WS[..2]));
                    feats.push("empty-first-line");
                    for _ in 0..r.range(1, o.max_lines.max(1)) {
                        let ind = *r.pick(&INDENTS);
                        let l = gen_line(r, o, &mut uniq, true);
                        t.push('\n');
                        t.push_str(ind);
                        t.push_str(&l);
                        lines.push(l);
                    }
                }
                _ => {
                    let ws = *r.pick(&COLON_WS);
                    if ws.is_empty() {
                        feats.push("no-space-after-colon");
                    }
                    t.push_str(ws);
                    let l = gen_line(r, o, &mut uniq, false);
                    t.push_str(&l);
                    lines.push(l);
                    if shape >= 6 {
                        feats.push("multi-line");
                        for _ in 0..r.range(1, o.max_lines.max(1)) {
                            if o.blank_continuations && r.chance(1, 4) {
                                for _ in 0..r.range(1, 3) {
                                    t.push('\n');
                                    t.push_str(*r.pick(&[" ", "\t", "  "]));
                                }
                                feats.push("blank-continuation");
                            }
                            let ind = *r.pick(&INDENTS);
                            let l = gen_line(r, o, &mut uniq, true);
                            t.push('\n');
                            t.push_str(ind);
                            t.push_str(&l);
                            lines.push(l);
                        }
                    }
                    // whitespace-only continuation lines after the last line of the value (one or a run)
                    if o.blank_continuations && r.chance(1, 5) {
                        for _ in 0..r.range(1, 3) {
                            t.push('\n');
                            t.push_str(*r.pick(&[" ", "\t", "  "]));
                        }
                        feats.push("trailing-blank-continuation");
                    }
                }
            }
            t.push('\n');
            para.push(GField { name, lines });
        }
        if o.comments && o.comment_after_last_field && r.chance(1, 8) {
            let c = gen_comment(r, &mut uniq, &mut d);
            t.push_str(&c);
            t.push('\n');
            feats.push("comment-after-last-field");
        }
        d.paras.push(para);
    }
    // trailing material
    let mut ended_with_comment = false;
    if o.comments && np > 0 && r.chance(1, 6) {
        t.push('\n');
        let c = gen_comment(r, &mut uniq, &mut d);
        t.push_str(&c);
        t.push('\n');
        feats.push("comment-file-end");
        ended_with_comment = true;
    }
    if o.leading_trailing_blank && r.chance(1, 6) {
        for _ in 0..r.range(1, 2) {
            t.push('\n');
        }
        feats.push("trailing-blank");
    } else if o.allow_unterminated && r.chance(1, 5) && t.ends_with('\n') && !t.ends_with("\n\n") && !t.is_empty() {
        // drop the final newline
        let _ = ended_with_comment;
        t.pop();
        feats.push("unterminated");
    }
    feats.sort();
    feats.dedup();
    d.features = feats;
    d.text = t;
    d
}

// ---------------------------------------------------------------- mutators (X)

pub const MUTATIONS: [&str; 11] = [
    "delete-char", "dup-char", "insert-class", "delete-line", "dup-line", "swap-lines", "truncate",
    "crlf", "cr", "splice", "insert-special",
];

/// Characters that text tools like to treat specially although the formats do not: byte order mark, NUL, vertical
/// tab, NEL, no-break space, zero-width space, line/paragraph separators, ideographic space.
pub const SPECIALS: [char; 10] = ['\u{feff}', '\0', '\u{b}', '\u{85}', '\u{a0}', '\u{200b}', '\u{2028}', '\u{2029}', '\u{3000}', '\u{1c}'];

/// Apply one mutation; returns its name. Always yields valid UTF-8.
pub fn mutate(r: &mut Rng, text: &str, other: &str) -> (String, &'static str) {
    let chars: Vec<char> = text.chars().collect();
    let k = r.below(MUTATIONS.len());
    let name = MUTATIONS[k];
    let out = match name {
        "delete-char" if !chars.is_empty() => {
            let i = r.below(chars.len());
            chars.iter().enumerate().filter(|(j, _)| *j != i).map(|(_, c)| *c).collect()
        }
        "dup-char" if !chars.is_empty() => {
            let i = r.below(chars.len());
            let mut s = String::new();
            for (j, c) in chars.iter().enumerate() {
                s.push(*c);
                if j == i {
                    s.push(*c);
                }
            }
            s
        }
        "insert-class" => {
            let i = r.below(chars.len() + 1);
            let sym = *r.pick(&DEB_ALPHABET);
            let mut s: String = chars[..i].iter().collect();
            s.push_str(sym);
            s.extend(chars[i..].iter());
            s
        }
        "insert-special" => {
            // at the very start (where a byte order mark would sit), at the very end, or anywhere
            let i = match r.below(4) {
                0 | 1 => 0,
                2 => chars.len(),
                _ => r.below(chars.len() + 1),
            };
            let mut s: String = chars[..i].iter().collect();
            s.push(*r.pick(&SPECIALS));
            s.extend(chars[i..].iter());
            s
        }
        "delete-line" | "dup-line" | "swap-lines" => {
            let mut lines: Vec<&str> = text.split_inclusive('\n').collect();
            if lines.is_empty() {
                text.to_string()
            } else {
                let i = r.below(lines.len());
                match name {
                    "delete-line" => {
                        lines.remove(i);
                    }
                    "dup-line" => {
                        let l = lines[i];
                        lines.insert(i, l);
                    }
                    _ => {
                        let j = r.below(lines.len());
                        lines.swap(i, j);
                    }
                }
                lines.concat()
            }
        }
        "truncate" => {
            let i = r.below(chars.len() + 1);
            chars[..i].iter().collect()
        }
        "crlf" => text.replace('\n', "\r\n"),
        "cr" => text.replace('\n', "\r"),
        "splice" => {
            let oc: Vec<char> = other.chars().collect();
            let i = r.below(chars.len() + 1);
            let j = r.below(oc.len() + 1);
            let mut s: String = chars[..i].iter().collect();
            s.extend(oc[j..].iter());
            s
        }
        _ => text.to_string(),
    };
    (out, name)
}
