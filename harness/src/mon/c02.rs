//! C02 — every text-parsing entry point is total: a value or an error for any
//! input, no panic, bounded logical steps and allocation, no stack exhaustion.
use crate::gen::{self, GOpts};
use crate::model::deb_shape;
use crate::relgen::{self, rel_shape, ROpts};
use crate::rt::{clip, guard, last_cost, Ctx, Lane, Rng};
use deb822_lossless::FromDeb822Paragraph;
use serde_json::json;
use std::str::FromStr;

/// Outcome of one entry-point call as far as totality is concerned.
type Ep = (&'static str, fn(&str) -> bool);

macro_rules! ep {
    ($name:expr, $s:ident => $e:expr) => {
        ($name, (|$s: &str| -> bool { $e }) as fn(&str) -> bool)
    };
}

/// entry points fed with deb822-shaped text
pub fn deb_eps() -> Vec<Ep> {
    use debian_control::lossless as ll;
    vec![
        ep!("deb822::Deb822::from_str", s => deb822_lossless::Deb822::from_str(s).is_ok()),
        ep!("deb822::Deb822::from_str_relaxed", s => { let (d, e) = deb822_lossless::Deb822::from_str_relaxed(s); let _ = d.to_string(); e.is_empty() }),
        ep!("deb822::Deb822::read", s => deb822_lossless::Deb822::read(s.as_bytes()).is_ok()),
        ep!("deb822::Deb822::read_relaxed", s => deb822_lossless::Deb822::read_relaxed(s.as_bytes()).is_ok()),
        ep!("deb822::Paragraph::from_str", s => deb822_lossless::Paragraph::from_str(s).is_ok()),
        ep!("deb822::lossy::Deb822::from_str", s => deb822_lossless::lossy::Deb822::from_str(s).is_ok()),
        ep!("deb822::lossy::Deb822::from_reader", s => deb822_lossless::lossy::Deb822::from_reader(s.as_bytes()).is_ok()),
        ep!("deb822::lossy::Paragraph::from_str", s => deb822_lossless::lossy::Paragraph::from_str(s).is_ok()),
        ep!("control::lossless::Control::from_str", s => ll::Control::from_str(s).is_ok()),
        ep!("control::lossless::Control::read", s => ll::Control::read(s.as_bytes()).is_ok()),
        ep!("control::lossless::Control::read_relaxed", s => ll::Control::read_relaxed(s.as_bytes()).is_ok()),
        ep!("control::lossless::apt::Source::from_str", s => ll::apt::Source::from_str(s).is_ok()),
        ep!("control::lossless::apt::Package::from_str", s => ll::apt::Package::from_str(s).is_ok()),
        ep!("control::lossless::apt::Release::from_str", s => ll::apt::Release::from_str(s).is_ok()),
        ep!("control::lossless::Buildinfo::from_str", s => ll::buildinfo::Buildinfo::from_str(s).is_ok()),
        ep!("control::lossless::Changes::read", s => ll::changes::Changes::read(s.as_bytes()).is_ok()),
        ep!("control::lossless::Changes::read_relaxed", s => ll::changes::Changes::read_relaxed(s.as_bytes()).is_ok()),
        ep!("control::lossy::Control::from_str", s => debian_control::lossy::Control::from_str(s).is_ok()),
        ep!("control::lossy::apt::Source::from_str", s => debian_control::lossy::apt::Source::from_str(s).is_ok()),
        ep!("control::lossy::apt::Package::from_str", s => debian_control::lossy::apt::Package::from_str(s).is_ok()),
        ep!("control::lossy::apt::Release::from_paragraph", s => {
            match deb822_lossless::lossy::Paragraph::from_str(s) {
                Ok(p) => debian_control::lossy::apt::Release::from_paragraph(&p).is_ok(),
                Err(_) => false,
            }
        }),
        ep!("control::lossy::apt::Release::from_paragraph(lossless)", s => {
            match deb822_lossless::Paragraph::from_str(s) {
                Ok(p) => debian_control::lossy::apt::Release::from_paragraph(&p).is_ok(),
                Err(_) => false,
            }
        }),
        ep!("control::lossy::Buildinfo::from_str", s => debian_control::lossy::buildinfo::Buildinfo::from_str(s).is_ok()),
        ep!("control::lossy::Removal::from_str", s => debian_control::lossy::ftpmaster::Removal::from_str(s).is_ok()),
        ep!("control::pgp::strip_pgp_signature", s => debian_control::pgp::strip_pgp_signature(s).is_ok()),
        ep!("copyright::lossless::Copyright::from_str", s => debian_copyright::lossless::Copyright::from_str(s).is_ok()),
        ep!("copyright::lossless::Copyright::from_str_relaxed", s => debian_copyright::lossless::Copyright::from_str_relaxed(s).is_ok()),
        ep!("copyright::lossy::Copyright::from_str", s => debian_copyright::lossy::Copyright::from_str(s).is_ok()),
        ep!("dep3::lossless::PatchHeader::from_str", s => dep3::lossless::PatchHeader::from_str(s).is_ok()),
        ep!("dep3::lossy::PatchHeader::from_str", s => dep3::lossy::PatchHeader::from_str(s).is_ok()),
        ep!("apt_sources::Repositories::from_str", s => apt_sources::Repositories::from_str(s).is_ok()),
    ]
}

/// entry points fed with relation-shaped text
pub fn rel_eps() -> Vec<Ep> {
    use debian_control::lossless::relations as lr;
    vec![
        ep!("relations::lossless::Relations::from_str", s => lr::Relations::from_str(s).is_ok()),
        ep!("relations::lossless::Relations::parse_relaxed(false)", s => { let (r, e) = lr::Relations::parse_relaxed(s, false); let _ = r.to_string(); e.is_empty() }),
        ep!("relations::lossless::Relations::parse_relaxed(true)", s => { let (r, e) = lr::Relations::parse_relaxed(s, true); let _ = r.to_string(); e.is_empty() }),
        ep!("relations::lossless::Entry::from_str", s => lr::Entry::from_str(s).is_ok()),
        ep!("relations::lossless::Relation::from_str", s => lr::Relation::from_str(s).is_ok()),
        ep!("relations::lossy::Relations::from_str", s => debian_control::lossy::Relations::from_str(s).is_ok()),
        ep!("relations::lossy::Relation::from_str", s => debian_control::lossy::Relation::from_str(s).is_ok()),
    ]
}

/// entry points fed with short free words / single-line values
pub fn word_eps() -> Vec<Ep> {
    use debian_control::fields as f;
    vec![
        ep!("relations::VersionConstraint::from_str", s => debian_control::relations::VersionConstraint::from_str(s).is_ok()),
        ep!("relations::BuildProfile::from_str", s => debian_control::relations::BuildProfile::from_str(s).is_ok()),
        ep!("changes::File::from_str", s => debian_control::lossless::changes::File::from_str(s).is_ok()),
        ep!("vcs::ParsedVcs::from_str", s => debian_control::vcs::ParsedVcs::from_str(s).is_ok()),
        ep!("vcs::Vcs::from_field(Git)", s => debian_control::vcs::Vcs::from_field("Git", s).is_ok()),
        ep!("vcs::Vcs::from_field(Bzr)", s => debian_control::vcs::Vcs::from_field("Bzr", s).is_ok()),
        ep!("vcs::Vcs::from_field(Hg)", s => debian_control::vcs::Vcs::from_field("Hg", s).is_ok()),
        ep!("vcs::Vcs::from_field(Svn)", s => debian_control::vcs::Vcs::from_field("Svn", s).is_ok()),
        ep!("vcs::Vcs::from_field(Cvs)", s => debian_control::vcs::Vcs::from_field("Cvs", s).is_ok()),
        ep!("vcs::Vcs::from_field(<name>)", s => debian_control::vcs::Vcs::from_field(s, s).is_ok()),
        ep!("parse_identity", s => debian_control::parse_identity(s).is_ok()),
        ep!("fields::Priority::from_str", s => f::Priority::from_str(s).is_ok()),
        ep!("fields::MultiArch::from_str", s => f::MultiArch::from_str(s).is_ok()),
        ep!("fields::Urgency::from_str", s => f::Urgency::from_str(s).is_ok()),
        ep!("fields::Md5Checksum::from_str", s => f::Md5Checksum::from_str(s).is_ok()),
        ep!("fields::Sha1Checksum::from_str", s => f::Sha1Checksum::from_str(s).is_ok()),
        ep!("fields::Sha256Checksum::from_str", s => f::Sha256Checksum::from_str(s).is_ok()),
        ep!("fields::Sha512Checksum::from_str", s => f::Sha512Checksum::from_str(s).is_ok()),
        ep!("fields::PackageListEntry::from_str", s => f::PackageListEntry::from_str(s).is_ok()),
        ep!("copyright::License::from_str", s => debian_copyright::License::from_str(s).is_ok()),
        ep!("dep3::Forwarded::from_str", s => dep3::Forwarded::from_str(s).is_ok()),
        ep!("dep3::OriginCategory::from_str", s => dep3::OriginCategory::from_str(s).is_ok()),
        ep!("dep3::Origin::from_str", s => dep3::Origin::from_str(s).is_ok()),
        ep!("dep3::AppliedUpstream::from_str", s => dep3::AppliedUpstream::from_str(s).is_ok()),
        ep!("apt_sources::RepositoryType::from_str", s => apt_sources::RepositoryType::from_str(s).is_ok()),
        ep!("apt_sources::YesNoForce::from_str", s => apt_sources::YesNoForce::from_str(s).is_ok()),
        ep!("apt_sources::Signature::from_str", s => apt_sources::signature::Signature::from_str(s).is_ok()),
    ]
}

fn eps_of(kind: u8) -> &'static Vec<Ep> {
    use std::sync::OnceLock;
    static D: OnceLock<Vec<Ep>> = OnceLock::new();
    static R: OnceLock<Vec<Ep>> = OnceLock::new();
    static W: OnceLock<Vec<Ep>> = OnceLock::new();
    match kind {
        0 => D.get_or_init(deb_eps),
        1 => R.get_or_init(rel_eps),
        _ => W.get_or_init(word_eps),
    }
}

pub fn lanes() -> Vec<Lane> {
    vec![
        Lane { name: "deb-sweep", count: |c| gen::sweep_count(16, if c.thorough() { 5 } else { 4 }), run: deb_sweep },
        Lane { name: "rel-sweep", count: |c| gen::sweep_count(23, if c.thorough() { 5 } else { 4 }), run: rel_sweep },
        Lane { name: "word-sweep", count: |c| gen::sweep_count(23, if c.thorough() { 4 } else { 3 }) + gen::sweep_count(16, if c.thorough() { 4 } else { 3 }), run: word_sweep },
        Lane { name: "words", count: |c| if c.thorough() { 400_000 } else { 20_000 }, run: words_lane },
        Lane { name: "deb-gen", count: |c| if c.thorough() { 60_000 } else { 3_000 }, run: deb_gen },
        Lane { name: "rel-gen", count: |c| if c.thorough() { 200_000 } else { 10_000 }, run: rel_gen },
        Lane { name: "typed", count: |c| if c.thorough() { 400_000 } else { 20_000 }, run: typed_lane },
        Lane { name: "pgp", count: |c| if c.thorough() { 40_000 } else { 2_000 }, run: pgp_lane },
        Lane { name: "corpus", count: |c| if c.thorough() { 3_000 } else { 400 }, run: corpus_lane },
        Lane { name: "scale", count: |_| (FAMILIES.len() * 3) as u64, run: scale_lane },
    ]
}

/// Allocation bound per call: generous constant (regex compilation inside some
/// entry points costs a few hundred KiB) + linear part.
fn alloc_bound(len: usize) -> u64 {
    (4 << 20) + 16 * 1024 * (len as u64 + 16)
}

/// Call every entry point of `kind` on `s`; report panics / budget overruns.
fn feed(ctx: &mut Ctx, kind: u8, s: &str, shape: &'static str) {
    for (name, f) in eps_of(kind).iter() {
        let r = guard(s.len(), || f(s));
        let cost = last_cost();
        match r {
            Ok(ok) => {
                ctx.count(if ok { "ok" } else { "err" });
                if cost.bytes > alloc_bound(s.len()) {
                    ctx.violation(
                        &format!("alloc-budget|{}|{}", name, shape),
                        json!({"input": clip(s), "bytes": cost.bytes, "bound": alloc_bound(s.len())}),
                    );
                }
                let l = (s.len() + 16) as f64;
                if cost.steps > 0 {
                    ctx.max("steps/(len+16)", cost.steps as f64 / l);
                }
                ctx.max("alloc-bytes/(len+16)", cost.bytes as f64 / l);
            }
            Err(fail) => {
                ctx.violation(
                    &format!("{}|{}|{}", fail.class(), name, shape),
                    json!({"input": clip(s), "entry_point": name, "failure": fail.json(), "steps": cost.steps, "budget": crate::rt::step_budget(s.len())}),
                );
            }
        }
    }
    ctx.add("calls", eps_of(kind).len() as u64);
    ctx.add("evals", eps_of(kind).len() as u64);
}

fn deb_sweep(ctx: &mut Ctx, idx: u64) {
    let mut s = String::new();
    gen::sweep_string(&gen::DEB_ALPHABET, idx, &mut s);
    feed(ctx, 0, &s, deb_shape(&s));
    if s.chars().count() >= 2 {
        ctx.distinct_exact += 1;
    }
    if idx % 20_011 == 3 {
        ctx.sample(|| json!({"input": s, "entry_points": eps_of(0).len()}));
    }
}

fn rel_sweep(ctx: &mut Ctx, idx: u64) {
    let mut s = String::new();
    gen::sweep_string(&gen::REL_ALPHABET, idx, &mut s);
    feed(ctx, 1, &s, rel_shape(&s));
    if s.chars().count() >= 2 {
        ctx.distinct_exact += 1;
    }
    if idx % 50_021 == 3 {
        ctx.sample(|| json!({"input": s, "entry_points": eps_of(1).len()}));
    }
}

fn word_sweep(ctx: &mut Ctx, idx: u64) {
    let n23 = gen::sweep_count(23, if ctx.thorough() { 4 } else { 3 });
    let mut s = String::new();
    if idx < n23 {
        gen::sweep_string(&gen::REL_ALPHABET, idx, &mut s);
    } else {
        gen::sweep_string(&gen::DEB_ALPHABET, idx - n23, &mut s);
    }
    feed(ctx, 2, &s, word_shape(&s));
    if s.chars().count() >= 2 {
        ctx.distinct_exact += 1;
    }
}

fn word_shape(s: &str) -> &'static str {
    if s.is_empty() {
        "empty"
    } else if !s.is_ascii() {
        "non-ascii"
    } else if s.contains('\n') || s.contains('\r') {
        "multi-line"
    } else if s.contains('[') || s.contains(" -b") {
        "vcs-like"
    } else if s.split_whitespace().count() >= 3 {
        "record-like"
    } else {
        "word"
    }
}

pub const KEYWORDS: [&str; 60] = [
    "required", "important", "standard", "optional", "extra", "same", "foreign", "no", "allowed", "low", "medium", "high",
    "emergency", "critical", "yes", "force", "deb", "deb-src", "not-needed", "upstream", "backport", "vendor", "other", ">=", "<=",
    "=", ">>", "<<", "<", ">", "<>", "!nocheck", "nocheck", "commit:abc123", "commit:", "https://example.org/x.git",
    "https://example.org/x.git -b main", "https://e.org/x -b main [sub/dir]", "https://e.org/x [sub]", " [x]", " -b ", "[", "]",
    "Joe Example <joe@example.com>", "joe@example.com", "<", "a <b", "<>", "@", "d41d8cd98f00b204e9800998ecf8427e 0 file.txt",
    "abc 18446744073709551616 f", "abc -1 f", "abc 1", "pkg deb utils optional arch=any", "pkg deb utils bogus", "pkg deb utils optional k=",
    "pkg deb utils optional =v", "d41d8 12 utils optional f.deb", "/usr/share/keyrings/x.gpg", "-----BEGIN PGP PUBLIC KEY BLOCK-----\n.\nabc\n-----END PGP PUBLIC KEY BLOCK-----",
];

fn gen_word(r: &mut Rng) -> String {
    let base = r.pick(&KEYWORDS).to_string();
    match r.below(11) {
        0 => base.to_uppercase(),
        1 => {
            let mut c = base.chars();
            match c.next() {
                Some(f) => f.to_uppercase().collect::<String>() + c.as_str(),
                None => base,
            }
        }
        2 => format!(" {}", base),
        3 => format!("{} ", base),
        4 => format!("{}\n", base),
        5 => format!("{} {}", base, r.pick(&KEYWORDS)),
        6 => {
            let other = r.pick(&KEYWORDS).to_string();
            gen::mutate(r, &base, &other).0
        }
        7 => format!("{}é", base),
        8 => format!("{}\r\n{}", base, r.pick(&KEYWORDS)),
        9 => {
            // Unicode blanks where an ASCII blank is expected (char::is_whitespace / regex \s are wider than ' ')
            let b = *r.pick(&['\u{a0}', '\u{2003}', '\u{3000}', '\u{2028}', '\u{85}', '\u{1680}', '\u{b}']);
            if base.contains(' ') { base.replace(' ', &b.to_string()) } else { format!("{}{}[x]", base, b) }
        }
        _ => base,
    }
}

fn words_lane(ctx: &mut Ctx, _idx: u64) {
    let mut r = ctx.rng();
    let w = gen_word(&mut r);
    feed(ctx, 2, &w, word_shape(&w));
    // words are also (degenerate) relation fields
    feed(ctx, 1, &w, rel_shape(&w));
    ctx.nontrivial(w.as_bytes());
    ctx.sample(|| json!({"input": w}));
}

fn deb_gen(ctx: &mut Ctx, _idx: u64) {
    let mut r = ctx.rng();
    let o = GOpts::default();
    let d = gen::gen_doc(&mut r, &o);
    let mut t = d.text;
    if r.chance(1, 2) {
        let other = gen::gen_doc(&mut r, &o).text;
        t = gen::mutate(&mut r, &t, &other).0;
    }
    feed(ctx, 0, &t, deb_shape(&t));
    ctx.nontrivial(t.as_bytes());
    // prefixes: unterminated constructs (all of them in thorough, 8 random ones in quick)
    let bounds: Vec<usize> = t.char_indices().map(|(i, _)| i).collect();
    let all = ctx.thorough();
    let picks: Vec<usize> = if all || bounds.len() <= 8 { bounds.clone() } else { (0..8).map(|_| *r.pick(&bounds)).collect() };
    for b in picks {
        let p = &t[..b];
        feed(ctx, 0, p, deb_shape(p));
        ctx.count("prefixes");
    }
    ctx.sample(|| json!({"input": clip(&t), "prefixes": if all { "all" } else { "8 random" }}));
}

fn rel_gen(ctx: &mut Ctx, _idx: u64) {
    let mut r = ctx.rng();
    let o = ROpts { substvars: true, ..ROpts::default() };
    let g = relgen::gen_field(&mut r, &o);
    let t = g.text;
    feed(ctx, 1, &t, rel_shape(&t));
    ctx.nontrivial(t.as_bytes());
    let bounds: Vec<usize> = t.char_indices().map(|(i, _)| i).collect();
    for &b in &bounds {
        // every prefix
        let p = &t[..b];
        feed(ctx, 1, p, rel_shape(p));
        ctx.count("prefixes");
    }
    // every single-character deletion of a structural character
    for &b in &bounds {
        let c = t[b..].chars().next().unwrap();
        if "()[]<>{}$,|:!".contains(c) {
            let mut m = t[..b].to_string();
            m.push_str(&t[b + c.len_utf8()..]);
            feed(ctx, 1, &m, rel_shape(&m));
            ctx.count("token-deletions");
        }
    }
    ctx.sample(|| json!({"input": clip(&t)}));
}

pub const FIELD_NAMES: [&str; 118] = [
    "Acquire-By-Hash", "Allow-Downgrade-To-Insecure", "Allow-Insecure", "Allow-Weak", "Applied-Upstream", "Architecture",
    "Architectures", "Author", "Autobuild", "Binaries", "Binary", "Binary-Only-Changes", "Breaks", "Bug", "Bug-Debian",
    "Build-Architecture", "Build-Conflicts", "Build-Conflicts-Arch", "Build-Conflicts-Indep", "Build-Date", "Build-Depends",
    "Build-Depends-Arch", "Build-Depends-Indep", "Build-Origin", "Build-Path", "Build-Tainted-By", "Built-Using",
    "ButAutomaticUpgrades", "By-Hash", "Changed-By", "Changelogs", "Checksums-Md5", "Checksums-Sha1", "Checksums-Sha256",
    "Checksums-Sha512", "Codename", "Comment", "Components", "Conflicts", "Copyright", "Date", "Depends", "Description",
    "Description-MD5", "Description-md5", "Directory", "Distribution", "Enabled", "Enhances", "Environment", "Essential", "Filename",
    "Files", "Files-Excluded", "Format", "Format-Specification", "Forwarded", "From", "Ftpmaster", "Homepage",
    "Installed-Build-Depends", "Installed-Size", "Label", "Languages", "Last-Update", "License", "MD5Sum", "MD5sum", "Maintainer",
    "Multi-Arch", "No-Support-For-Architecture-All", "NotAutomatic", "Origin", "PDiffs", "Package", "Package-List", "Pre-Depends",
    "Priority", "Provides", "Reason", "Recommends", "Replaces", "Reviewed-by", "Rules-Requires-Root", "SHA1", "SHA256", "SHA512",
    "Section", "Signed-By", "Size", "Source", "Sources", "Standards-Version", "Subject", "Suggests", "Suite", "Suites", "Tag",
    "Targets", "Testsuite", "Trusted", "Types", "URIs", "Uploaders", "Upstream-Contact", "Upstream-Name", "Urgency", "Valid-Until",
    "Vcs-Arch", "Vcs-Browser", "Vcs-Bzr", "Vcs-Cvs", "Vcs-Darcs", "Vcs-Git", "Vcs-Hg", "Vcs-Mtn", "Vcs-Svn", "Version",
];

pub const VALUES: [&str; 59] = [
    "https://e.org/x\u{3000}[sub]", "a\u{2003}(>=\u{a0}1)", "pkg\u{3000}deb\u{2003}x\u{a0}optional", "", "foo", "1.0-1", "1:2.0~rc1-1", "yes", "no", "true", "false", "force", "binary-targets", "optional", "bogus", "same", "deb",
    "deb deb-src", "https://example.org/", "http://[::1", "not a url", "mailto:x", "stable main", "amd64 i386", "a, b, c", "a b c",
    "libc6 (>= 2.3), foo | bar [amd64] <!nocheck>", "a [", "${", "${misc:Depends}", "a (", "a (>= 1", "a <", "a (>= 1:2~)", "a b",
    "Joe <joe@example.com>", "Joe <joe@example.com>, Ann <ann@example.org>", "12345", "18446744073709551616", "-1", "1e9", "é漢😀",
    "a\rb", "Thu, 01 Jan 1970 00:00:00 +0000", "Thu, 32 Jan 2024 25:61:00 UTC", "2024-01-01", "2024-13-45", "0",
    "https://salsa.debian.org/x/y.git -b main [sub]", "upstream, commit:abc", "vendor, ", "commit:", "not-needed",
    "https://www.debian.org/doc/packaging-manuals/copyright-format/1.0/", "GPL-2+", "* debian/*", "src/\\x", "\\", "a=b c=d",
];

pub const MULTI: [&str; 10] = [
    "\n d41d8cd98f00b204e9800998ecf8427e 0 a.txt\n d41d8cd98f00b204e9800998ecf8427e 12 b.txt",
    "\n abc def ghi\n short",
    "\n abc notanumber file",
    "short description\n long\n .\n more",
    "GPL-2+\n This is free software\n .\n text",
    "\n .\n .",
    "\n pkg deb utils optional arch=any\n pkg2 udeb x extra",
    "\n d41d8cd98f00b204e9800998ecf8427e 12 utils optional foo_1.0_amd64.deb",
    "*\n debian/*\n src/?.c",
    "\n -----BEGIN PGP PUBLIC KEY BLOCK-----\n .\n abc\n -----END PGP PUBLIC KEY BLOCK-----",
];

/// lead fields that select the typed document kinds
const LEADS: [&str; 12] = [
    "Source: foo\n",
    "Package: foo\n",
    "Format: https://www.debian.org/doc/packaging-manuals/copyright-format/1.0/\n",
    "Format: 1.8\n",
    "Types: deb\nURIs: https://deb.debian.org/debian\nSuites: stable\nComponents: main\n",
    "Description: a patch\n",
    "From: Joe <joe@example.com>\nSubject: x\n",
    "Origin: Debian\n",
    "Files: *\nCopyright: 2024 X\nLicense: GPL-2+\n",
    "License: GPL-2+\n text\n",
    "Date: Thu, 01 Jan 1970 00:00:00 +0000\nFtpmaster: x\n",
    "",
];

pub fn gen_typed(r: &mut Rng) -> String {
    let mut t = String::new();
    let np = r.range(1, 3);
    for p in 0..np {
        if p > 0 {
            t.push('\n');
        }
        if r.chance(3, 4) {
            t.push_str(r.pick_s(&LEADS));
        }
        for _ in 0..r.range(0, 6) {
            let name = r.pick(&FIELD_NAMES);
            t.push_str(name);
            t.push_str(": ");
            if r.chance(1, 4) {
                t.push_str(r.pick_s(&MULTI));
            } else {
                t.push_str(r.pick_s(&VALUES));
            }
            t.push('\n');
        }
    }
    t
}

fn typed_lane(ctx: &mut Ctx, _idx: u64) {
    let mut r = ctx.rng();
    let t = gen_typed(&mut r);
    feed(ctx, 0, &t, "typed-document");
    ctx.nontrivial(t.as_bytes());
    ctx.sample(|| json!({"input": clip(&t)}));
}

pub fn pgp_wrap(headers: &[String], payload: &str, sig: &[String]) -> String {
    let mut s = String::from("-----BEGIN PGP SIGNED MESSAGE-----\n");
    for h in headers {
        s.push_str(h);
        s.push('\n');
    }
    s.push('\n');
    s.push_str(payload);
    s.push_str("-----BEGIN PGP SIGNATURE-----\n");
    for l in sig {
        s.push_str(l);
        s.push('\n');
    }
    s.push_str("-----END PGP SIGNATURE-----\n");
    s
}

fn pgp_lane(ctx: &mut Ctx, _idx: u64) {
    let mut r = ctx.rng();
    let d = gen::gen_doc(&mut r, &GOpts { allow_unterminated: false, ..GOpts::default() });
    let headers: Vec<String> = (0..r.below(3)).map(|i| format!("Hash: SHA{}", 256 + i)).collect();
    let sig: Vec<String> = (0..r.below(4)).map(|i| format!("iQIzBAEBCAAdFiEE{}", i)).collect();
    let mut payload = d.text.clone();
    if !payload.ends_with('\n') && !payload.is_empty() {
        payload.push('\n');
    }
    let mut m = pgp_wrap(&headers, &payload, &sig);
    if r.chance(1, 3) {
        let other = gen_typed(&mut r);
        m = gen::mutate(&mut r, &m, &other).0;
    }
    feed(ctx, 0, &m, "pgp-wrapped");
    ctx.nontrivial(m.as_bytes());
    // every line-boundary cut
    let mut pos = 0;
    while let Some(i) = m[pos..].find('\n') {
        pos += i + 1;
        let p = &m[..pos];
        let r = guard(p.len(), || debian_control::pgp::strip_pgp_signature(p).is_ok());
        if let Err(f) = r {
            ctx.violation(&format!("{}|control::pgp::strip_pgp_signature|pgp-cut", f.class()), json!({"input": clip(p), "failure": f.json()}));
        }
        ctx.count("pgp-cuts");
    }
    ctx.sample(|| json!({"input": clip(&m)}));
}

fn corpus_lane(ctx: &mut Ctx, idx: u64) {
    let c = super::c01::corpus();
    if c.is_empty() {
        ctx.count("skipped:no-corpus");
        return;
    }
    let mut r = ctx.rng();
    let (name, text) = &c[(idx as usize) % c.len()];
    let mut t = text.clone();
    if idx as usize >= c.len() {
        let other = &c[r.below(c.len())].1;
        t = gen::mutate(&mut r, &t, other).0;
    }
    feed(ctx, 0, &t, "corpus");
    ctx.nontrivial(t.as_bytes());
    ctx.sample(|| json!({"file": name, "bytes": t.len()}));
}

// ---------------------------------------------------------------- scaling series

struct Family {
    name: &'static str,
    kind: u8,
    make: fn(usize) -> String,
}

const FAMILIES: [Family; 20] = [
    Family { name: "one-huge-line", kind: 0, make: |n| format!("A: {}\n", "x".repeat(n)) },
    Family { name: "many-short-fields", kind: 0, make: |n| "A: b\n".repeat(n / 5 + 1) },
    Family { name: "many-paragraphs", kind: 0, make: |n| "A: b\n\n".repeat(n / 6 + 1) },
    Family { name: "many-continuations", kind: 0, make: |n| format!("A: b\n{}", " c\n".repeat(n / 3 + 1)) },
    Family { name: "blank-run", kind: 0, make: |n| format!("A: b\n{}", "\n".repeat(n)) },
    Family { name: "consecutive-errors", kind: 0, make: |n| "-\n".repeat(n / 2 + 1) },
    Family { name: "comment-run", kind: 0, make: |n| format!("{}A: b\n", "#c\n".repeat(n / 3 + 1)) },
    Family { name: "colon-run", kind: 0, make: |n| ":".repeat(n) },
    Family { name: "many-commas", kind: 1, make: |n| ",".repeat(n) },
    Family { name: "many-entries", kind: 1, make: |n| "a, ".repeat(n / 3 + 1) },
    Family { name: "many-alternatives", kind: 1, make: |n| format!("a{}", " | b".repeat(n / 4 + 1)) },
    Family { name: "whitespace-run", kind: 1, make: |n| format!("a{}", " ".repeat(n)) },
    Family { name: "rel-errors", kind: 1, make: |n| "@".repeat(n) },
    Family { name: "open-parens", kind: 1, make: |n| "a (".repeat(n / 3 + 1) },
    Family { name: "comment-run-inside-paragraph", kind: 0, make: |n| format!("A: b\n{}C: d\n", "#\n".repeat(n / 2 + 1)) },
    Family { name: "comment-run-at-end", kind: 0, make: |n| format!("A: b\n{}", "#\n".repeat(n / 2 + 1)) },
    Family { name: "blank-continuations", kind: 0, make: |n| format!("A: b\n{}C: d\n", " \n".repeat(n / 2 + 1)) },
    Family { name: "many-architectures", kind: 1, make: |n| format!("a [{}]", "b ".repeat(n / 2 + 1)) },
    Family { name: "many-profile-groups", kind: 1, make: |n| format!("a {}", "<b> ".repeat(n / 4 + 1)) },
    Family { name: "substvar-run", kind: 1, make: |n| "${a}, ".repeat(n / 6 + 1) },
];

/// log-log slope between the two largest sizes (robust against constant terms)
fn exponent(xs: &[(f64, f64)]) -> f64 {
    let (x0, y0) = xs[xs.len() - 3];
    let (x1, y1) = xs[xs.len() - 1];
    if y0 <= 0.0 || y1 <= 0.0 {
        return 0.0;
    }
    (y1 / y0).ln() / (x1 / x0).ln()
}

/// Stack clause: none of the grammars nests, so the deepest frame reached must not grow with the length of the
/// input. Measured with a painted stack (rt::stack_high_water) at the smallest and the largest size of the series;
/// the allowance covers allocator/formatting paths that are only taken for large buffers.
const STACK_GROWTH_ALLOWANCE: usize = 32 << 10;

fn stack_series(ctx: &mut Ctx, fam: &Family) {
    let top = if ctx.thorough() { 15 } else { 13 };
    for (name, f) in eps_of(fam.kind).iter() {
        let small = (fam.make)(1usize << (top - 5));
        let large = (fam.make)(1usize << top);
        let (Some(d0), Some(d1)) = (crate::rt::stack_high_water(|| { let _ = f(&small); }), crate::rt::stack_high_water(|| { let _ = f(&large); })) else {
            ctx.count("stack-probe-unavailable");
            continue;
        };
        ctx.count("calls");
        ctx.count("stack-probes");
        ctx.max("stack-bytes", d1 as f64);
        ctx.max("stack-growth-bytes", d1.saturating_sub(d0) as f64);
        if d1 > d0 + STACK_GROWTH_ALLOWANCE {
            ctx.violation(
                &format!("stack-grows-with-input|{}|scale:{}", name, fam.name),
                json!({"family": fam.name, "bytes_small": small.len(), "stack_small": d0, "bytes_large": large.len(), "stack_large": d1}),
            );
        }
        ctx.nontrivial(format!("{}|{}|stack", fam.name, name).as_bytes());
    }
    ctx.sample(|| json!({"family": fam.name, "measure": "stack high-water bytes", "sizes": format!("2^{} and 2^{}", top - 5, top)}));
}

fn scale_lane(ctx: &mut Ctx, idx: u64) {
    let fam = &FAMILIES[(idx as usize) / 3];
    let which = (idx % 3) as usize; // 0: steps, 1: allocations, 2: stack depth
    if which == 2 {
        return stack_series(ctx, fam);
    }
    let top = if ctx.thorough() { 15 } else { 13 };
    for (name, f) in eps_of(fam.kind).iter() {
        let mut series: Vec<(f64, f64)> = vec![];
        let mut failed = false;
        for k in (top - 5)..=top {
            let n = 1usize << k;
            let s = (fam.make)(n);
            // generous budget: the scaling exponent is what is being measured here
            let l = s.len() as u64 + 16;
            let r = crate::rt::guard_steps(8 * l * l, || f(&s));
            let cost = last_cost();
            match r {
                Ok(_) => series.push((s.len() as f64, if which == 0 { cost.steps as f64 } else { cost.allocs as f64 })),
                Err(fail) => {
                    ctx.violation(&format!("{}|{}|scale:{}", fail.class(), name, fam.name), json!({"family": fam.name, "n": n, "failure": fail.json()}));
                    failed = true;
                    break;
                }
            }
            ctx.count("calls");
        }
        if failed {
            continue;
        }
        let e = exponent(&series);
        ctx.max(if which == 0 { "scaling-exponent:steps" } else { "scaling-exponent:allocs" }, e);
        if e > 2.2 {
            ctx.violation(
                &format!("superquadratic-{}|{}|scale:{}", if which == 0 { "steps" } else { "allocs" }, name, fam.name),
                json!({"family": fam.name, "series": series, "exponent": e}),
            );
        }
        ctx.nontrivial(format!("{}|{}|{}", fam.name, name, which).as_bytes());
    }
    ctx.sample(|| json!({"family": fam.name, "measure": if which == 0 { "steps" } else { "allocation calls" }, "sizes": format!("2^{}..2^{}", top - 5, top)}));
}
