//! C17 — copyright lookup: last matching Files paragraph wins; DEP-5 globs;
//! licence resolution; lossless and lossy agree; non-machine-readable text refused.
use crate::gen::{self, GOpts};
use crate::rt::{clip, guard, Ctx, Lane, Rng};
use debian_copyright::License;
use serde_json::json;
use std::path::Path;
use std::str::FromStr;

pub fn lanes() -> Vec<Lane> {
    vec![
        Lane { name: "glob", count: |c| gen::sweep_count(PAT.len(), if c.thorough() { 3 } else { 2 }), run: glob_lane },
        Lane { name: "files", count: |c| if c.thorough() { 100_000 } else { 4_000 }, run: files_lane },
        Lane { name: "not-machine-readable", count: |c| if c.thorough() { 100_000 } else { 8_000 }, run: nmr_lane },
        Lane { name: "non-utf8-paths", count: |_| (NU_PATTERNS.len() * NU_PATHS.len()) as u64, run: non_utf8_lane },
    ]
}

/// File names are byte strings: a path that is not valid UTF-8 is still looked up. Only wildcards can match the
/// undecodable part (patterns are text).
const NU_PATTERNS: [&str; 5] = ["*", "doc/*", "doc/caf?.txt", "doc/cafe.txt", "*.txt"];
const NU_PATHS: [&[u8]; 3] = [b"doc/caf\xe9.txt", b"\xff", b"src/\xc3.c"];

fn non_utf8_lane(ctx: &mut Ctx, idx: u64) {
    use std::os::unix::ffi::OsStrExt;
    let pattern = NU_PATTERNS[idx as usize % NU_PATTERNS.len()];
    let bytes = NU_PATHS[idx as usize / NU_PATTERNS.len()];
    let path = Path::new(std::ffi::OsStr::from_bytes(bytes));
    // the undecodable byte counts as one character that no literal equals
    let shown = String::from_utf8_lossy(bytes).to_string();
    let want = glob_match(&pattern.chars().collect::<Vec<_>>(), &shown.chars().collect::<Vec<_>>());
    let text = format!("{}\nFiles: {}\nCopyright: c\nLicense: L\n", FORMAT, pattern);
    let res = guard(text.len() + 64, || {
        let ll = debian_copyright::lossless::Copyright::from_str(&text).map_err(|e| e.to_string())?;
        let ly = debian_copyright::lossy::Copyright::from_str(&text).map_err(|e| e.to_string())?;
        Ok::<_, String>((ll.find_files(path).is_some(), ly.find_files(path).is_some()))
    });
    ctx.count("pairs");
    match res {
        Err(f) => ctx.violation(&format!("{}|find_files|non-utf8-path", f.class()), json!({"pattern": pattern, "path": shown, "failure": f.json()})),
        Ok(Err(e)) => ctx.violation("wellformed-copyright-rejected|from_str|non-utf8-path", json!({"input": text, "error": e})),
        Ok(Ok((a, b))) => {
            if a != want || b != want {
                ctx.violation("wrong-match|find_files|non-utf8-path", json!({"pattern": pattern, "path": shown, "expected": want, "lossless": a, "lossy": b}));
            }
        }
    }
    ctx.distinct_exact += 1;
    ctx.sample(|| json!({"pattern": pattern, "path_lossy": shown, "expected": want}));
}

const FORMAT: &str = "Format: https://www.debian.org/doc/packaging-manuals/copyright-format/1.0/\n";

/// pattern symbols: literals, regex metacharacters, wildcards, the three escapes, '/'
const PAT: [&str; 19] = ["a", "b", ".", "+", "(", ")", "[", "]", "{", "}", "^", "$", "|", "*", "?", "\\*", "\\?", "\\\\", "/"];
/// path symbols
const PATHSYM: [&str; 12] = ["a", "b", ".", "/", "*", "?", "\\", "+", "(", "^", "é", "\n"];

/// Reference DEP-5 matcher: '*' any run (incl. '/'), '?' one character,
/// backslash makes the next '*', '?' or '\' literal, everything else itself.
pub fn glob_match(pat: &[char], s: &[char]) -> bool {
    match pat.first() {
        None => s.is_empty(),
        Some('*') => (0..=s.len()).any(|k| glob_match(&pat[1..], &s[k..])),
        Some('?') => !s.is_empty() && glob_match(&pat[1..], &s[1..]),
        Some('\\') if pat.len() >= 2 => !s.is_empty() && s[0] == pat[1] && glob_match(&pat[2..], &s[1..]),
        Some(c) => !s.is_empty() && s[0] == *c && glob_match(&pat[1..], &s[1..]),
    }
}

fn glob_lane(ctx: &mut Ctx, idx: u64) {
    let mut pattern = String::new();
    gen::sweep_string(&PAT, idx, &mut pattern);
    if pattern.is_empty() || pattern.starts_with('#') {
        ctx.count("skipped:empty-pattern");
        return;
    }
    let text = format!("{}\nFiles: {}\nCopyright: c\nLicense: L\n", FORMAT, pattern);
    let built = guard(text.len(), || {
        let ll = debian_copyright::lossless::Copyright::from_str(&text).ok().and_then(|c| c.iter_files().next());
        let ly = debian_copyright::lossy::Copyright::from_str(&text).ok().map(|c| c.files[0].clone());
        (ll, ly)
    });
    let (ll, ly) = match built {
        Ok((Some(a), Some(b))) => (a, b),
        Ok(_) => {
            ctx.violation("wellformed-copyright-rejected|from_str|glob", json!({"input": text}));
            return;
        }
        Err(f) => {
            ctx.violation(&format!("{}|from_str|glob", f.class()), json!({"input": text, "failure": f.json()}));
            return;
        }
    };
    let pc: Vec<char> = pattern.chars().collect();
    let npaths = gen::sweep_count(PATHSYM.len(), 3);
    let mut path = String::new();
    let kind = if pattern.contains('\\') { "escape" } else if pattern.contains('*') || pattern.contains('?') { "wildcard" } else { "literal" };
    for k in 0..npaths {
        gen::sweep_string(&PATHSYM, k, &mut path);
        let want = glob_match(&pc, &path.chars().collect::<Vec<_>>());
        let got = guard(64, || (ll.matches(Path::new(&path)), ly.matches(Path::new(&path))));
        ctx.count("pairs");
        match got {
            Err(f) => {
                ctx.violation(&format!("{}|FilesParagraph::matches|pattern:{}", f.class(), kind), json!({"pattern": pattern, "path": path, "failure": f.json()}));
                return;
            }
            Ok((a, b)) => {
                if a != want {
                    ctx.violation(&format!("wrong-match|lossless::FilesParagraph::matches|pattern:{}", kind), json!({"pattern": pattern, "path": path, "expected": want, "got": a}));
                    return;
                }
                if b != want {
                    ctx.violation(&format!("wrong-match|lossy::FilesParagraph::matches|pattern:{}", kind), json!({"pattern": pattern, "path": path, "expected": want, "got": b}));
                    return;
                }
                if want {
                    ctx.count("matching-pairs");
                }
            }
        }
    }
    ctx.distinct_exact += 1;
    if idx % 97 == 5 {
        ctx.sample(|| json!({"pattern": pattern, "paths_tried": npaths}));
    }
}

#[derive(Clone, Debug)]
struct MFiles {
    /// patterns, grouped by the line they are written on
    lines: Vec<Vec<String>>,
    license_name: String,
    license_text: Option<Vec<String>>,
    token: String,
}

const PIECES: [&str; 10] = ["src", "debian", "*", "?", "lib", ".c", "/", "x", "\\*", "doc"];
/// Short names compare exactly: the pool contains names that differ only in letter case.
const LICENSES: [&str; 10] = ["GPL-2+", "MIT", "Apache-2.0", "Expat", "GPL-2+ or MIT", "GPL-2+ with OpenSSL exception", "expat", "EXPAT", "gpl-2+", "mit"];

fn gen_pattern(r: &mut Rng) -> String {
    match r.below(6) {
        0 => "*".to_string(),
        1 => format!("{}/*", r.pick_s(&["src", "debian", "lib", "doc"])),
        _ => (0..r.range(1, 4)).map(|_| r.pick_s(&PIECES)).collect::<String>(),
    }
}

fn gen_path(r: &mut Rng) -> String {
    match r.below(5) {
        0 => format!("{}/{}.c", r.pick_s(&["src", "debian", "lib", "doc"]), r.pick_s(&["x", "lib", "a*b"])),
        _ => (0..r.range(1, 4)).map(|_| r.pick_s(&["src", "debian", "lib", ".c", "/", "x", "*", "doc", "y"])).collect::<String>(),
    }
}

fn files_lane(ctx: &mut Ctx, _idx: u64) {
    let mut r = ctx.rng();
    let nf = r.range(1, 6);
    let mut files: Vec<MFiles> = vec![];
    for i in 0..nf {
        let nl = r.range(1, 2);
        let lines: Vec<Vec<String>> = (0..nl).map(|_| (0..r.range(1, 2)).map(|_| gen_pattern(&mut r)).collect()).collect();
        let has_text = r.chance(1, 3);
        files.push(MFiles {
            lines,
            license_name: r.pick_s(&LICENSES).to_string(),
            license_text: if has_text { Some(vec![format!("inline text {}", i), "more".to_string()]) } else { None },
            token: format!("holder{}", i),
        });
    }
    // stand-alone licences (mostly with text; a name-only paragraph is still the first paragraph of that name),
    // possibly several of one name
    let ns = r.below(4);
    let standalone: Vec<(String, Vec<String>)> = (0..ns)
        .map(|i| (r.pick_s(&LICENSES).to_string(), if r.chance(1, 6) { vec![] } else { vec![format!("standalone text {}", i), ".".to_string(), "end".to_string()] }))
        .collect();
    // write the file: header, then Files and License paragraphs in any order
    enum P {
        F(usize),
        L(usize),
    }
    let mut order: Vec<P> = (0..nf).map(P::F).chain((0..ns).map(P::L)).collect();
    if r.chance(1, 2) {
        // shuffle licences among the files paragraphs (files keep their relative order)
        for i in (1..order.len()).rev() {
            let j = r.below(i + 1);
            if matches!((&order[i], &order[j]), (P::L(_), _) | (_, P::L(_))) {
                let both_f = matches!(&order[i], P::F(_)) && matches!(&order[j], P::F(_));
                if !both_f {
                    order.swap(i, j);
                }
            }
        }
        // restore relative order of Files paragraphs and of same-named licences is not needed for the model:
        // the model below is computed from the final order.
    }
    let mut text = String::from(FORMAT);
    text.push_str("Upstream-Name: x\n");
    // the header paragraph may state the licence of the work as a whole: it is not a stand-alone licence paragraph
    let header_license = r.chance(1, 4);
    if header_license {
        text.push_str(&format!("License: {}\n", r.pick_s(&LICENSES)));
    }
    let mut model_files: Vec<MFiles> = vec![];
    let mut model_lic: Vec<(String, Vec<String>)> = vec![];
    for p in &order {
        text.push('\n');
        match p {
            P::F(i) => {
                let f = &files[*i];
                text.push_str("Files:");
                for (k, l) in f.lines.iter().enumerate() {
                    text.push_str(if k == 0 { " " } else { "\n " });
                    text.push_str(&l.join(if r.chance(1, 4) { "  " } else { " " }));
                }
                text.push_str(&format!("\nCopyright: 2024 {}\nLicense: {}\n", f.token, f.license_name));
                if let Some(t) = &f.license_text {
                    for l in t {
                        text.push_str(&format!(" {}\n", l));
                    }
                }
                model_files.push(f.clone());
            }
            P::L(i) => {
                let (n, t) = &standalone[*i];
                text.push_str(&format!("License: {}\n", n));
                for l in t {
                    text.push_str(&format!(" {}\n", l));
                }
                model_lic.push((n.clone(), t.clone()));
            }
        }
    }
    let parsed = guard(text.len(), || (debian_copyright::lossless::Copyright::from_str(&text), debian_copyright::lossy::Copyright::from_str(&text)));
    let (ll, ly) = match parsed {
        Ok((Ok(a), Ok(b))) => (a, b),
        Ok((a, b)) => {
            ctx.violation("wellformed-copyright-rejected|from_str|files", json!({"input": clip(&text), "lossless": a.is_ok(), "lossy": b.err()}));
            return;
        }
        Err(f) => {
            ctx.violation(&format!("{}|from_str|files", f.class()), json!({"input": clip(&text), "failure": f.json()}));
            return;
        }
    };
    // iter_files / iter_licenses expose the paragraphs in file order
    let seen_files: Vec<String> = ll.iter_files().map(|f| f.copyright().join("|")).collect();
    let want_files: Vec<String> = model_files.iter().map(|f| format!("2024 {}", f.token)).collect();
    if seen_files != want_files {
        ctx.violation("iter_files-mismatch|lossless::Copyright::iter_files|files", json!({"input": clip(&text), "expected": want_files, "got": seen_files}));
        return;
    }
    let seen_lic: Vec<Option<String>> = ll.iter_licenses().map(|l| l.name()).collect();
    let want_lic: Vec<Option<String>> = model_lic.iter().map(|l| Some(l.0.clone())).collect();
    if seen_lic != want_lic {
        ctx.violation("iter_licenses-mismatch|lossless::Copyright::iter_licenses|files", json!({"input": clip(&text), "expected": want_lic, "got": seen_lic}));
        return;
    }
    let multi = if model_files.iter().any(|f| f.lines.len() > 1) { "multi-line-patterns" } else if model_files.iter().any(|f| f.lines[0].len() > 1) { "several-patterns-per-line" } else { "one-pattern" };
    for _ in 0..20 {
        let path = gen_path(&mut r);
        let pc: Vec<char> = path.chars().collect();
        // reference: last Files paragraph, in file order, one of whose patterns matches the whole path
        let want = model_files.iter().rposition(|f| f.lines.iter().flatten().any(|p| glob_match(&p.chars().collect::<Vec<_>>(), &pc)));
        let want_license: Option<License> = want.and_then(|i| {
            let f = &model_files[i];
            match &f.license_text {
                Some(t) => Some(License::Named(f.license_name.clone(), t.join("\n"))),
                None => model_lic.iter().find(|(n, _)| *n == f.license_name).map(|(n, t)| if t.is_empty() { License::Name(n.clone()) } else { License::Named(n.clone(), t.join("\n")) }),
            }
        });
        let got = guard(256, || {
            let a = ll.find_files(Path::new(&path)).map(|f| f.copyright().join("|"));
            let al = ll.find_license_for_file(Path::new(&path));
            let b = ly.find_files(Path::new(&path)).map(|f| f.to_string());
            let bl = ly.find_license_for_file(Path::new(&path)).cloned();
            (a, al, b, bl)
        });
        ctx.count("lookups");
        match got {
            Err(f) => {
                ctx.violation(&format!("{}|find_files|{}", f.class(), multi), json!({"input": clip(&text), "path": path, "failure": f.json()}));
                return;
            }
            Ok((a, al, b, bl)) => {
                let want_tok = want.map(|i| format!("2024 {}", model_files[i].token));
                if a != want_tok {
                    ctx.violation(&format!("wrong-paragraph|lossless::Copyright::find_files|{}", multi), json!({"input": clip(&text), "path": path, "expected": want_tok, "got": a}));
                    return;
                }
                let b_tok = b.as_ref().and_then(|t| t.lines().find_map(|l| l.strip_prefix("Copyright: ").map(|x| x.to_string())));
                if b_tok != want_tok {
                    ctx.violation(&format!("wrong-paragraph|lossy::Copyright::find_files|{}", multi), json!({"input": clip(&text), "path": path, "expected": want_tok, "got": b_tok}));
                    return;
                }
                if al != want_license {
                    ctx.violation(&format!("wrong-license|lossless::Copyright::find_license_for_file|{}", if want_license.is_some() { "resolved" } else { "none" }), json!({"input": clip(&text), "path": path, "expected": format!("{:?}", want_license), "got": format!("{:?}", al)}));
                    return;
                }
                if bl != want_license {
                    ctx.violation(&format!("wrong-license|lossy::Copyright::find_license_for_file|{}", if want_license.is_some() { "resolved" } else { "none" }), json!({"input": clip(&text), "path": path, "expected": format!("{:?}", want_license), "got": format!("{:?}", bl)}));
                    return;
                }
                ctx.count(if want.is_some() { "lookup:found" } else { "lookup:none" });
                if matches!(want_license, Some(License::Name(_))) {
                    ctx.count("lookup:resolved-to-name-only-paragraph");
                }
            }
        }
    }
    ctx.count(&format!("layout:{}", multi));
    ctx.nontrivial(text.as_bytes());
    ctx.sample(|| json!({"copyright": clip(&text), "files_paragraphs": model_files.len(), "standalone_licenses": model_lic.len(), "lookups": 20}));
}

fn nmr_lane(ctx: &mut Ctx, idx: u64) {
    let mut r = ctx.rng();
    let d = gen::gen_doc(&mut r, &GOpts::default());
    let body = d.text;
    let text = match idx % 6 {
        0 => body.clone(),
        1 => format!("\n{}{}", FORMAT, body),
        2 => format!(" {}{}", FORMAT, body),
        3 => format!("# comment\n{}{}", FORMAT, body),
        4 => format!("format: x\n{}", body),
        _ => format!("Source: x\n{}\n{}", FORMAT, body),
    };
    if text.starts_with("Format:") {
        ctx.count("skipped:accidentally-machine-readable");
        return;
    }
    let res = guard(text.len(), || {
        (
            debian_copyright::lossless::Copyright::from_str(&text).is_ok(),
            debian_copyright::lossless::Copyright::from_str_relaxed(&text).is_ok(),
            debian_copyright::lossy::Copyright::from_str(&text).is_ok(),
        )
    });
    match res {
        Err(f) => ctx.violation(&format!("{}|Copyright::from_str|not-machine-readable", f.class()), json!({"input": clip(&text), "failure": f.json()})),
        Ok((a, b, c)) => {
            for (ok, who) in [(a, "lossless::Copyright::from_str"), (b, "lossless::Copyright::from_str_relaxed"), (c, "lossy::Copyright::from_str")] {
                if ok {
                    ctx.violation(&format!("not-machine-readable-accepted|{}|variant:{}", who, idx % 6), json!({"input": clip(&text)}));
                }
            }
        }
    }
    ctx.count(&format!("variant:{}", idx % 6));
    ctx.nontrivial(text.as_bytes());
    ctx.sample(|| json!({"input": clip(&text)}));
}
