//! C14 — lossy relations round-trip through text and convert faithfully to
//! and from the lossless form.
use super::c10::{seen_json, seen_lossless, seen_lossy, Seen};
use crate::relgen::{self, MRel, ROpts};
use crate::rt::{guard, Ctx, Lane, Rng};
use debian_control::lossless::relations as ll;
use debian_control::lossy;
use debian_control::relations::{BuildProfile, VersionConstraint};
use serde_json::json;
use std::str::FromStr;

pub fn lanes() -> Vec<Lane> {
    vec![
        Lane { name: "relations", count: |c| if c.thorough() { 1_000_000 } else { 200_000 }, run: relations_lane },
        Lane { name: "factorial", count: |_| 2 * 6 * 4 * 5 * 4, run: factorial_lane },
        Lane { name: "long-numbers", count: |_| LONG_VERSIONS.len() as u64, run: long_numbers_lane },
    ]
}

/// valid versions with a digit run beyond 32 bits (date-stamped versions are common)
const LONG_VERSIONS: [&str; 4] = ["0~git20240101120000-1", "1.20240101120000", "2147483648", "1:1.0+20240101120000"];

fn long_numbers_lane(ctx: &mut Ctx, idx: u64) {
    let mut m = MRel::simple("foo");
    m.version = Some((">=".to_string(), LONG_VERSIONS[idx as usize].to_string()));
    let res = guard(1024, || {
        let x = to_lossy(&m);
        let text = x.to_string();
        let back = lossy::Relations::from_str(&text)?;
        let eq = back.0.len() == 1 && back.0[0].len() == 1 && back.0[0][0] == x;
        let conv = lossy::Relation::from(debian_control::lossless::relations::Relation::from(x.clone())) == x;
        Ok::<_, String>((text, eq, conv))
    });
    ctx.count("evaluations");
    match res {
        Err(f) => ctx.violation(&format!("{}|lossy::Relation::eq|numeric-component-beyond-32-bits", f.class()), json!({"value": m.canonical(), "failure": f.json()})),
        Ok(Err(e)) => ctx.violation("printed-form-rejected|lossy::Relations::from_str|numeric-component-beyond-32-bits", json!({"value": m.canonical(), "error": e})),
        Ok(Ok((text, eq, conv))) => {
            if !eq || !conv {
                ctx.violation("roundtrip-unequal|lossy::Relation|numeric-component-beyond-32-bits", json!({"value": m.canonical(), "printed": text, "reparse_equal": eq, "conversion_equal": conv}));
            }
        }
    }
    ctx.distinct_exact += 1;
    ctx.sample(|| json!({"value": m.canonical()}));
}

pub fn to_lossy(m: &MRel) -> lossy::Relation {
    lossy::Relation {
        name: m.name.clone(),
        archqual: m.archqual.clone(),
        architectures: m.archs.as_ref().map(|a| a.iter().map(|(n, a)| format!("{}{}", if *n { "!" } else { "" }, a)).collect()),
        version: m.version.as_ref().map(|(o, v)| (VersionConstraint::from_str(o).unwrap(), debversion::Version::from_str(v).unwrap())),
        profiles: m.profiles.iter().map(|g| g.iter().map(|(n, p)| if *n { BuildProfile::Disabled(p.clone()) } else { BuildProfile::Enabled(p.clone()) }).collect()).collect(),
    }
}

fn shape(m: &MRel) -> String {
    format!(
        "aq={},ver={},archs={},prof={}",
        m.archqual.is_some() as u8,
        m.version.is_some() as u8,
        match &m.archs { None => "none".to_string(), Some(a) => format!("{}{}", a.len().min(2), if a.iter().any(|x| x.0) { "neg" } else { "" }) },
        if m.profiles.is_empty() { "none".to_string() } else { format!("{}x{}", m.profiles.len().min(2), m.profiles.iter().map(|g| g.len()).max().unwrap_or(0).min(2)) }
    )
}

/// checks on one relation value
fn check_relation(ctx: &mut Ctx, m: &MRel) -> bool {
    let sh = shape(m);
    let x = to_lossy(m);
    let res = guard(512, || {
        let text = x.to_string();
        let re = lossy::Relation::from_str(&text);
        let lossless_read = ll::Relation::from_str(&text).map(|r| seen_lossless(&r));
        let conv = ll::Relation::from(x.clone());
        let conv_text = conv.to_string();
        let back = lossy::Relation::from(conv);
        (text, re, lossless_read, conv_text, back)
    });
    let (text, re, lossless_read, conv_text, back) = match res {
        Ok(v) => v,
        Err(f) => {
            ctx.violation(&format!("{}|relation|{}", f.class(), sh), json!({"value": format!("{:?}", x), "failure": f.json()}));
            return false;
        }
    };
    let mut ok = true;
    // the same value assembled with the builder (valid components: the builder parses the version text)
    let built = guard(512, || {
        let mut b = lossy::Relation::build(&m.name);
        if let Some(q) = &m.archqual {
            b = b.archqual(q);
        }
        if let Some(a) = &x.architectures {
            b = b.architectures(a.iter().map(|s| s.as_str()).collect());
        }
        if let Some((o, v)) = &m.version {
            b = b.version(VersionConstraint::from_str(o).unwrap(), v);
        }
        for g in &x.profiles {
            b = b.profile(g.clone());
        }
        b.build()
    });
    match built {
        Ok(b) if b == x && b.to_string() == text => ctx.count("builder-agrees"),
        Ok(b) => {
            ctx.violation(&format!("builder-differs|lossy::RelationBuilder|{}", sh), json!({"value": format!("{:?}", x), "built": format!("{:?}", b), "built_prints": b.to_string()}));
            ok = false;
        }
        Err(f) => {
            ctx.violation(&format!("{}|lossy::RelationBuilder|{}", f.class(), sh), json!({"value": format!("{:?}", x), "failure": f.json()}));
            ok = false;
        }
    }
    match re {
        Ok(r) if r == x => {}
        other => {
            ctx.violation(&format!("lossy-reparse-unequal|lossy::Relation::from_str|{}", sh), json!({"value": format!("{:?}", x), "printed": text, "reparsed": format!("{:?}", other)}));
            ok = false;
        }
    }
    let want: Seen = seen_lossy(&x);
    match lossless_read {
        Ok(s) if s == want => {}
        other => {
            ctx.violation(&format!("lossless-reads-differently|lossless::Relation::from_str|{}", sh), json!({"printed": text, "expected": seen_json(&[vec![want.clone()]]), "got": format!("{:?}", other)}));
            ok = false;
        }
    }
    if conv_text != text {
        ctx.violation(&format!("converted-prints-differently|lossless::Relation::from(lossy)|{}", sh), json!({"lossy_text": text, "lossless_text": conv_text}));
        ok = false;
    }
    if back != x {
        ctx.violation(&format!("conversion-roundtrip-unequal|lossy::Relation::from(lossless::Relation::from(x))|{}", sh), json!({"value": format!("{:?}", x), "back": format!("{:?}", back)}));
        ok = false;
    }
    ok
}

fn gen_rel(r: &mut Rng) -> MRel {
    relgen::gen_relation(r, &ROpts::default())
}

fn relations_lane(ctx: &mut Ctx, _idx: u64) {
    let mut r = ctx.rng();
    let ne = r.range(1, 3);
    let model: Vec<Vec<MRel>> = (0..ne).map(|_| (0..r.range(1, 3)).map(|_| gen_rel(&mut r)).collect()).collect();
    for e in &model {
        for m in e {
            let ok = check_relation(ctx, m);
            ctx.count(if ok { "relation-held" } else { "relation-violated" });
        }
    }
    // the whole field
    let x = lossy::Relations(model.iter().map(|e| e.iter().map(to_lossy).collect()).collect());
    let res = guard(2048, || {
        let text = x.to_string();
        let re = lossy::Relations::from_str(&text);
        let ll_read = ll::Relations::from_str(&text).map(|r| r.entries().map(|e| e.relations().map(|x| seen_lossless(&x)).collect::<Vec<_>>()).collect::<Vec<_>>());
        // Entry <-> Vec<lossy::Relation>
        let entries: Vec<(String, Vec<lossy::Relation>)> = x.0.iter().map(|e| {
            let le = ll::Entry::from(e.clone());
            (le.to_string(), Vec::<lossy::Relation>::from(le))
        }).collect();
        (text, re, ll_read, entries)
    });
    match res {
        Err(f) => ctx.violation(&format!("{}|relations|-", f.class()), json!({"value": format!("{:?}", x), "failure": f.json()})),
        Ok((text, re, ll_read, entries)) => {
            match re {
                Ok(r) if r == x => {}
                other => ctx.violation("lossy-reparse-unequal|lossy::Relations::from_str|field", json!({"printed": text, "reparsed": format!("{:?}", other.map(|r| r.to_string()))})),
            }
            let want: Vec<Vec<Seen>> = x.0.iter().map(|e| e.iter().map(seen_lossy).collect()).collect();
            match ll_read {
                Ok(s) if s == want => {}
                other => ctx.violation("lossless-reads-differently|lossless::Relations::from_str|field", json!({"printed": text, "expected": seen_json(&want), "got": format!("{:?}", other)})),
            }
            for ((etext, back), orig) in entries.iter().zip(x.0.iter()) {
                let want_text = lossy::Relations(vec![orig.clone()]).to_string();
                if *etext != want_text {
                    ctx.violation("converted-prints-differently|lossless::Entry::from(Vec<lossy::Relation>)|entry", json!({"lossy_text": want_text, "lossless_text": etext}));
                }
                if back != orig {
                    ctx.violation("conversion-roundtrip-unequal|Vec<lossy::Relation>::from(Entry)|entry", json!({"value": format!("{:?}", orig), "back": format!("{:?}", back)}));
                }
            }
            // the field value is a list of lists: its own accessors and constructors agree with the vector inside
            let api = guard(2048, || {
                let from_entries: lossy::Relations = x.0.iter().cloned().collect();
                let singles: Vec<lossy::Relation> = x.0.iter().map(|e| e[0].clone()).collect();
                let from_singles: lossy::Relations = singles.iter().cloned().collect();
                let iter_ok = x.iter().map(|e| e.into_iter().cloned().collect::<Vec<_>>()).collect::<Vec<_>>() == x.0;
                let index_ok = (0..x.0.len()).all(|i| x[i] == x.0[i]);
                let mut y = x.clone();
                let k = x.0.len() / 2;
                y.remove(k);
                let mut want = x.0.clone();
                want.remove(k);
                let mut z = x.clone();
                z[0] = vec![];
                from_entries == x
                    && from_singles.0 == singles.iter().map(|r| vec![r.clone()]).collect::<Vec<_>>()
                    && iter_ok
                    && index_ok
                    && x.len() == x.0.len()
                    && x.is_empty() == x.0.is_empty()
                    && lossy::Relations::new().is_empty()
                    && lossy::Relations::default() == lossy::Relations::new()
                    && y.0 == want
                    && z.0[0].is_empty()
                    && z.0[1..] == x.0[1..]
            });
            match api {
                Ok(true) => ctx.count("list-api-agrees"),
                Ok(false) => ctx.violation("list-api-differs|lossy::Relations|field", json!({"value": text})),
                Err(f) => ctx.violation(&format!("{}|lossy::Relations list api|field", f.class()), json!({"value": text, "failure": f.json()})),
            }
            ctx.nontrivial(text.as_bytes());
            ctx.sample(|| json!({"value": text}));
        }
    }
}

fn factorial_lane(ctx: &mut Ctx, idx: u64) {
    let mut k = idx;
    let mut take = |n: u64| {
        let v = k % n;
        k /= n;
        v as usize
    };
    let mut m = MRel::simple(["libfoo2.0", "g++"][take(2)]);
    let v = take(6);
    if v > 0 {
        // (index 0 is unused; "0:1.2-3" spells out the zero epoch, which must survive as written)
        m.version = Some((relgen::OPS[v - 1].to_string(), ["1.0", "1:2.0~rc1-1", "2.3-1+b1", "0", "1.0~", "0:1.2-3"][v].to_string()));
    }
    m.archqual = [None, Some("any"), Some("native"), Some("amd64")][take(4)].map(|s| s.to_string());
    m.archs = match take(5) {
        0 => None,
        // the list can be present and empty ("0..n architectures"): printed `[]`
        4 => Some(vec![]),
        1 => Some(vec![(false, "amd64".into())]),
        2 => Some(vec![(false, "amd64".into()), (false, "linux-any".into()), (false, "i386".into())]),
        _ => Some(vec![(true, "amd64".into()), (true, "hurd-i386".into())]),
    };
    m.profiles = match take(4) {
        0 => vec![],
        1 => vec![vec![(true, "nocheck".into())]],
        2 => vec![vec![(false, "cross".into()), (true, "stage1".into()), (false, "nodoc".into())]],
        _ => vec![vec![(false, "cross".into())], vec![(true, "stage1".into()), (false, "nodoc".into())], vec![(true, "nocheck".into())]],
    };
    let ok = check_relation(ctx, &m);
    ctx.count(if ok { "relation-held" } else { "relation-violated" });
    ctx.distinct_exact += 1;
    if idx % 191 == 0 {
        ctx.sample(|| json!({"value": m.canonical()}));
    }
}
