//! C19 — PGP clear-sign unwrapping returns exactly the payload and signature,
//! passes unsigned text through, and reports the matching error for every
//! truncation and for trailing additions.
use crate::gen::{self, GOpts};
use crate::rt::{clip, guard, Ctx, Lane, Rng};
use debian_control::pgp::{strip_pgp_signature, Error};
use serde_json::json;

pub fn lanes() -> Vec<Lane> {
    vec![
        Lane { name: "messages", count: |c| if c.thorough() { 200_000 } else { 30_000 }, run: messages_lane },
        Lane { name: "unsigned", count: |c| if c.thorough() { 200_000 } else { 10_000 }, run: unsigned_lane },
        Lane { name: "corpus", count: |_| 1, run: corpus_lane },
    ]
}

const BEGIN_MSG: &str = "-----BEGIN PGP SIGNED MESSAGE-----";
const BEGIN_SIG: &str = "-----BEGIN PGP SIGNATURE-----";
const END_SIG: &str = "-----END PGP SIGNATURE-----";

fn gen_payload(r: &mut Rng) -> (Vec<String>, &'static str) {
    match r.below(7) {
        0 => (vec![], "empty"),
        6 => {
            // LF-terminated lines whose last character is a carriage return (a CRLF file signed as it is)
            let v: Vec<String> = (0..r.range(1, 4)).map(|i| if i == 1 { "\r".to_string() } else { format!("Field{}: value {}\r", i, i) }).collect();
            (v, "lines-ending-in-cr")
        }
        1 => ((0..r.range(1, 3)).map(|_| String::new()).collect(), "blank-lines"),
        2 => {
            // look-alikes of the markers that need no dash-escaping
            let mut v = vec![format!(" {}", BEGIN_SIG), format!("x{}", END_SIG), format!("{} ", &BEGIN_SIG[1..]).replace('-', "=")];
            v.insert(r.below(3), "text".to_string());
            v.push(format!("> {}", BEGIN_MSG));
            (v, "marker-lookalikes")
        }
        3 => {
            let mut v: Vec<String> = (0..r.range(1, 5)).map(|i| format!("line {} é漢 \t#:", i)).collect();
            v.insert(r.below(v.len() + 1), String::new());
            (v, "text+blank")
        }
        _ => {
            let d = gen::gen_doc(r, &GOpts { allow_unterminated: false, ..GOpts::default() });
            let lines: Vec<String> = d.text.lines().map(|l| l.to_string()).collect();
            // generated field names may start with '-'? no: names never start with '-'; values can ("-dash") only after "Name: "
            (lines.into_iter().filter(|l| !l.starts_with('-')).collect(), "deb822")
        }
    }
}

fn phase_error(lines_kept: usize, n_headers: usize, n_payload: usize, n_sig: usize) -> Option<Result<(), Error>> {
    // line layout: 0 marker | headers | blank | payload | BEGIN SIG | sig | END SIG
    let blank = 1 + n_headers;
    let begin_sig = blank + 1 + n_payload;
    let end_sig = begin_sig + 1 + n_sig;
    if lines_kept == 0 {
        return None; // empty text: not a signed message at all
    }
    Some(if lines_kept <= blank {
        Err(Error::MissingPayload)
    } else if lines_kept <= begin_sig {
        Err(Error::MissingPgpSignature)
    } else if lines_kept <= end_sig {
        Err(Error::TruncatedPgpSignature)
    } else {
        Ok(())
    })
}

fn messages_lane(ctx: &mut Ctx, _idx: u64) {
    let mut r = ctx.rng();
    let (payload, pkind) = gen_payload(&mut r);
    let headers: Vec<String> = (0..r.below(4)).map(|i| ["Hash: SHA256", "Hash: SHA512", "Charset: UTF-8", "NotDashEscaped: x"][i].to_string()).collect();
    let sig: Vec<String> = (0..r.below(6))
        .map(|i| match i {
            0 if r.chance(1, 3) => String::new(),
            _ => format!("iQIzBAEBCAAdFiEE{}+/=", r.next() % 100000),
        })
        .collect();
    // (signature lines of such a file end in a carriage return too: "the signature lines concatenated" keeps them)
    let sig: Vec<String> = if pkind == "lines-ending-in-cr" && r.chance(1, 2) { sig.into_iter().map(|l| format!("{}\r", l)).collect() } else { sig };
    let mut lines: Vec<String> = vec![BEGIN_MSG.to_string()];
    lines.extend(headers.iter().cloned());
    lines.push(String::new());
    lines.extend(payload.iter().cloned());
    lines.push(BEGIN_SIG.to_string());
    lines.extend(sig.iter().cloned());
    lines.push(END_SIG.to_string());
    let want_payload: String = payload.iter().map(|l| format!("{}\n", l)).collect();
    let want_sig: String = sig.concat();
    let total = lines.len();
    let shape = format!("payload:{}", pkind);
    let call = |ctx: &mut Ctx, text: &str, what: &str| -> Option<Result<(String, Option<String>), Error>> {
        match guard(text.len(), || strip_pgp_signature(text)) {
            Ok(v) => Some(v),
            Err(f) => {
                ctx.violation(&format!("{}|strip_pgp_signature|{},{}", f.class(), shape, what), json!({"input": clip(text), "failure": f.json()}));
                None
            }
        }
    };
    // every truncation point after a line, with and without the final newline of the kept part
    for k in 0..=total {
        for final_newline in [true, false] {
            let mut text = lines[..k].join("\n");
            if k > 0 && final_newline {
                text.push('\n');
            }
            if !final_newline && (k == 0 || lines[k - 1].is_empty()) {
                // dropping the newline of an empty last line removes that line: covered by k-1
                continue;
            }
            let Some(got) = call(ctx, &text, "cut") else { return };
            let want = phase_error(k, headers.len(), payload.len(), sig.len());
            ctx.count("cuts");
            let ok = match (&want, &got) {
                (None, Ok((p, None))) => p == &text,
                (Some(Ok(())), Ok((p, Some(s)))) => *p == want_payload && *s == want_sig,
                (Some(Err(e)), Err(g)) => e == g,
                _ => false,
            };
            if !ok {
                let kind = match (&want, &got) {
                    (Some(Err(_)), Ok(_)) => "truncated-accepted",
                    (Some(Err(_)), Err(_)) => "wrong-error",
                    (Some(Ok(())), Ok(_)) => "wrong-payload-or-signature",
                    (Some(Ok(())), Err(_)) => "complete-message-rejected",
                    _ => "unsigned-not-passed-through",
                };
                ctx.violation(
                    &format!("{}|strip_pgp_signature|{}", kind, shape),
                    json!({"input": clip(&text), "lines_kept": k, "of": total, "expected": format!("{:?}", want), "expected_payload": want_payload, "got": format!("{:?}", got)}),
                );
                return;
            }
        }
    }
    // trailing additions
    let full = format!("{}\n", lines.join("\n"));
    for (jk, junk) in [("text-line", "junk\n"), ("blank-line", "\n"), ("second-message", "-----BEGIN PGP SIGNED MESSAGE-----\n\nx\n-----BEGIN PGP SIGNATURE-----\n-----END PGP SIGNATURE-----\n"), ("blanks-only-line", "  \n"), ("unterminated", "x")] {
        let text = format!("{}{}", full, junk);
        let Some(got) = call(ctx, &text, "junk") else { return };
        ctx.count("junk-cases");
        if got != Err(Error::JunkAfterPgpSignature) {
            ctx.violation(&format!("junk-not-reported|strip_pgp_signature|junk:{}", jk), json!({"input": clip(&text), "got": format!("{:?}", got)}));
            return;
        }
    }
    ctx.count(&format!("payload:{}", pkind));
    ctx.nontrivial(full.as_bytes());
    ctx.sample(|| json!({"message": clip(&full), "headers": headers.len(), "payload_lines": payload.len(), "signature_lines": sig.len(), "cuts": total + 1}));
}

fn unsigned_lane(ctx: &mut Ctx, idx: u64) {
    let mut r = ctx.rng();
    let d = gen::gen_doc(&mut r, &GOpts::default());
    let mut t = d.text;
    match idx % 5 {
        0 => t = format!(" {}\n{}", BEGIN_MSG, t),
        1 => t = format!("{} \n{}", BEGIN_MSG, t),
        2 => t = format!("\n{}\n\n{}", BEGIN_MSG, t),
        3 => t = format!("{}x\n\n{}{}\n{}\n", &BEGIN_MSG[..BEGIN_MSG.len() - 1], t, BEGIN_SIG, END_SIG),
        _ => {}
    }
    if t.lines().next() == Some(BEGIN_MSG) {
        ctx.count("skipped:accidentally-signed");
        return;
    }
    match guard(t.len(), || strip_pgp_signature(&t)) {
        Err(f) => ctx.violation(&format!("{}|strip_pgp_signature|unsigned", f.class()), json!({"input": clip(&t), "failure": f.json()})),
        Ok(Ok((p, None))) if p == t => ctx.count("passthrough"),
        Ok(other) => ctx.violation("unsigned-not-passed-through|strip_pgp_signature|unsigned", json!({"input": clip(&t), "got": format!("{:?}", other)})),
    }
    ctx.nontrivial(t.as_bytes());
    ctx.sample(|| json!({"input": clip(&t)}));
}

fn corpus_lane(ctx: &mut Ctx, _idx: u64) {
    let Ok(t) = std::fs::read_to_string("/repo/debian-control/src/testdata/InRelease") else {
        ctx.count("skipped:no-corpus");
        return;
    };
    // every line cut of a real InRelease file: an Ok must carry the full payload
    let full = guard(t.len(), || strip_pgp_signature(&t));
    let Ok(Ok((payload, Some(_)))) = full else {
        ctx.violation("complete-message-rejected|strip_pgp_signature|corpus:InRelease", json!({"got": format!("{:?}", full.map(|r| r.map(|x| x.0.len())))}));
        return;
    };
    let mut pos = 0;
    let mut cuts = 0;
    while let Some(i) = t[pos..].find('\n') {
        pos += i + 1;
        if pos == t.len() {
            break;
        }
        let cut = &t[..pos];
        cuts += 1;
        match guard(cut.len(), || strip_pgp_signature(cut)) {
            Ok(Ok((p, _))) => {
                ctx.violation("truncated-accepted|strip_pgp_signature|corpus:InRelease", json!({"bytes_kept": pos, "payload_len": p.len(), "full_payload_len": payload.len()}));
                return;
            }
            Ok(Err(_)) => {}
            Err(f) => {
                ctx.violation(&format!("{}|strip_pgp_signature|corpus:InRelease", f.class()), json!({"bytes_kept": pos, "failure": f.json()}));
                return;
            }
        }
    }
    ctx.add("cuts", cuts);
    ctx.distinct_exact += cuts;
    ctx.sample(|| json!({"file": "InRelease", "line_cuts": cuts, "payload_bytes": payload.len()}));
}
