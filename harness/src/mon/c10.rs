//! C10 — well-formed relationship fields are read exactly as written, by the
//! lossless accessors and by the lossy reader.
use crate::relgen::{self, GRel, MRel, ROpts};
use crate::rt::{clip, guard, Ctx, Lane};
use debian_control::lossless::relations as ll;
use debian_control::relations::BuildProfile;
use serde_json::{json, Value};
use std::str::FromStr;

pub fn lanes() -> Vec<Lane> {
    vec![
        Lane { name: "gen", count: |c| if c.thorough() { 2_000_000 } else { 400_000 }, run: gen_lane },
        Lane { name: "canonical", count: |c| if c.thorough() { 500_000 } else { 40_000 }, run: canonical_lane },
        Lane { name: "factorial", count: |_| FACT_TOTAL, run: factorial_lane },
    ]
}

/// What a reader exposes for one relation, in a neutral form.
#[derive(Clone, Debug, PartialEq, Eq)]
pub struct Seen {
    pub name: String,
    pub archqual: Option<String>,
    pub version: Option<(String, String)>,
    /// architecture names, a negated one written "!name"
    pub archs: Option<Vec<String>>,
    pub profiles: Vec<Vec<String>>,
}

pub fn expect(m: &MRel) -> Seen {
    Seen {
        name: m.name.clone(),
        archqual: m.archqual.clone(),
        version: m.version.clone(),
        archs: m.archs.as_ref().map(|a| a.iter().map(|(n, a)| format!("{}{}", if *n { "!" } else { "" }, a)).collect()),
        profiles: m.profiles.iter().map(|g| g.iter().map(|(n, a)| format!("{}{}", if *n { "!" } else { "" }, a)).collect()).collect(),
    }
}

fn profs(p: &[BuildProfile]) -> Vec<String> {
    p.iter().map(|b| b.to_string()).collect()
}

pub fn seen_lossless(r: &ll::Relation) -> Seen {
    Seen {
        name: r.name(),
        archqual: r.archqual(),
        version: r.version().map(|(vc, v)| (vc.to_string(), v.to_string())),
        archs: r.architectures().map(|a| a.collect()),
        profiles: r.profiles().map(|g| profs(&g)).collect(),
    }
}

pub fn seen_lossy(r: &debian_control::lossy::Relation) -> Seen {
    Seen {
        name: r.name.clone(),
        archqual: r.archqual.clone(),
        version: r.version.as_ref().map(|(vc, v)| (vc.to_string(), v.to_string())),
        archs: r.architectures.clone(),
        profiles: r.profiles.iter().map(|g| profs(g)).collect(),
    }
}

pub fn seen_json(s: &[Vec<Seen>]) -> Value {
    json!(s.iter().map(|e| e.iter().map(|r| json!({"name": r.name, "archqual": r.archqual, "version": r.version, "archs": r.archs, "profiles": r.profiles})).collect::<Vec<_>>()).collect::<Vec<_>>())
}

/// the most specific feature of a field, for signatures
pub fn main_feature(f: &[&'static str]) -> &'static str {
    for k in ["epoch", "negated-arch", "multi-term-profile", "substvar", "component-ws-variant", "archqual", "profiles", "archs", "tilde", "empty-entry", "trailing-comma", "newline-layout", "alternatives", "version"] {
        if f.contains(&k) {
            return k;
        }
    }
    "plain"
}

fn first_diff(want: &[Vec<Seen>], got: &[Vec<Seen>]) -> &'static str {
    if want.len() != got.len() {
        return "entry-count";
    }
    for (w, g) in want.iter().zip(got) {
        if w.len() != g.len() {
            return "alternative-count";
        }
        for (a, b) in w.iter().zip(g) {
            if a.name != b.name {
                return "name";
            }
            if a.archqual != b.archqual {
                return "archqual";
            }
            if a.version != b.version {
                return "version";
            }
            if a.archs != b.archs {
                return "architectures";
            }
            if a.profiles != b.profiles {
                return "profiles";
            }
        }
    }
    "none"
}

pub fn check_field(ctx: &mut Ctx, g: &GRel) -> bool {
    let feat = main_feature(&g.features);
    let has_sv = !g.substvars().is_empty();
    let want: Vec<Vec<Seen>> = g.entries().iter().map(|e| e.iter().map(expect).collect()).collect();
    let t = &g.text;
    let mut ok = true;
    // ---- lossless
    let r = guard(t.len(), || {
        let (rel, errs) = if has_sv { ll::Relations::parse_relaxed(t, true) } else {
            match ll::Relations::from_str(t) {
                Ok(r) => (r, vec![]),
                Err(e) => (ll::Relations::new(), vec![e]),
            }
        };
        let seen: Vec<Vec<Seen>> = if errs.is_empty() { rel.entries().map(|e| e.relations().map(|r| seen_lossless(&r)).collect()).collect() } else { vec![] };
        let sv: Vec<String> = rel.substvars().collect();
        (errs, seen, sv)
    });
    match r {
        Err(f) => {
            ctx.violation(&format!("{}|lossless|{}", f.class(), feat), json!({"input": clip(t), "failure": f.json()}));
            ok = false;
        }
        Ok((errs, seen, sv)) => {
            if !errs.is_empty() {
                ctx.violation(&format!("rejected-wellformed|lossless|{}", feat), json!({"input": clip(t), "errors": errs, "features": g.features}));
                ok = false;
            } else {
                let d = first_diff(&want, &seen);
                if d != "none" {
                    ctx.violation(&format!("structure-mismatch:{}|lossless|{}", d, feat), json!({"input": clip(t), "expected": seen_json(&want), "got": seen_json(&seen)}));
                    ok = false;
                }
                if sv != g.substvars() {
                    ctx.violation(&format!("substvars-mismatch|lossless|{}", feat), json!({"input": clip(t), "expected": g.substvars(), "got": sv}));
                    ok = false;
                }
                // versions also compared as Debian versions
                for (we, se) in g.entries().iter().zip(seen.iter()) {
                    for (wm, sm) in we.iter().zip(se.iter()) {
                        if let (Some((_, wv)), Some((_, sv))) = (&wm.version, &sm.version) {
                            let a = debversion::Version::from_str(wv);
                            let b = debversion::Version::from_str(sv);
                            if a.is_err() || b.is_err() || a.ok() != b.ok() {
                                ctx.violation(&format!("version-value-differs|lossless|{}", feat), json!({"input": clip(t), "written": wv, "read": sv}));
                                ok = false;
                            }
                        }
                    }
                }
            }
        }
    }
    // ---- lossy (fields without substvars): "accepts the same fields ... and yields the same structure"
    if !has_sv {
        let r = guard(t.len(), || debian_control::lossy::Relations::from_str(t).map(|rel| rel.0.iter().map(|e| e.iter().map(seen_lossy).collect::<Vec<_>>()).collect::<Vec<_>>()));
        match r {
            Err(f) => {
                ctx.violation(&format!("{}|lossy|{}", f.class(), feat), json!({"input": clip(t), "failure": f.json()}));
                ok = false;
            }
            Ok(Err(e)) => {
                ctx.violation(&format!("rejected-wellformed|lossy|{}", feat), json!({"input": clip(t), "error": e, "features": g.features}));
                ok = false;
            }
            Ok(Ok(seen)) => {
                let d = first_diff(&want, &seen);
                if d != "none" {
                    ctx.violation(&format!("structure-mismatch:{}|lossy|{}", d, feat), json!({"input": clip(t), "expected": seen_json(&want), "got": seen_json(&seen)}));
                    ok = false;
                }
            }
        }
    }
    for f in &g.features {
        ctx.count(&format!("feature:{}", f));
    }
    ok
}

fn gen_lane(ctx: &mut Ctx, idx: u64) {
    let mut r = ctx.rng();
    let o = ROpts { substvars: idx % 3 == 0, ws_level: 1 + (idx % 2) as u8, inner_newlines: idx % 4 == 1, ..ROpts::default() };
    let g = relgen::gen_field(&mut r, &o);
    let ok = check_field(ctx, &g);
    ctx.count(if ok { "held" } else { "violated" });
    ctx.nontrivial(g.text.as_bytes());
    ctx.sample(|| json!({"input": clip(&g.text), "features": g.features, "model": format!("{:?}", g.items)}));
}

fn canonical_lane(ctx: &mut Ctx, idx: u64) {
    let mut r = ctx.rng();
    let o = ROpts { substvars: idx % 3 == 0, ws_level: 0, ..ROpts::default() };
    let g = relgen::gen_field(&mut r, &o);
    let ok = check_field(ctx, &g);
    ctx.count(if ok { "held" } else { "violated" });
    ctx.nontrivial(g.text.as_bytes());
    ctx.sample(|| json!({"input": clip(&g.text), "features": g.features}));
}

// full factorial over the optional parts of one relation, canonical layout
const F_ARCHQUAL: [Option<&str>; 2] = [None, Some("any")];
const F_VERSION: [Option<&str>; 5] = [None, Some("1.0"), Some("1:2.0-1"), Some("1.0~rc1"), Some("2.3-1+b1")];
const F_ARCHS: [u8; 5] = [0, 1, 2, 3, 4]; // none, one, many, one negated, many negated
const F_PROF: [u8; 5] = [0, 1, 2, 3, 4]; // none, <a>, <!a>, <a !b>, <a> <!b c>
const FACT_TOTAL: u64 = 2 * 5 * 5 * 5 * 5 * 3; // x operator (only when versioned) x position (alone / first alt / second entry)

fn factorial_lane(ctx: &mut Ctx, idx: u64) {
    let mut k = idx;
    let mut take = |n: u64| {
        let v = k % n;
        k /= n;
        v as usize
    };
    let aq = F_ARCHQUAL[take(2)];
    let ver = F_VERSION[take(5)];
    let op = relgen::OPS[take(5)];
    let ar = F_ARCHS[take(5)];
    let pr = F_PROF[take(5)];
    let pos = take(3);
    let mut m = MRel::simple("libfoo2.0");
    m.archqual = aq.map(|s| s.to_string());
    m.version = ver.map(|v| (op.to_string(), v.to_string()));
    m.archs = match ar {
        0 => None,
        1 => Some(vec![(false, "amd64".into())]),
        2 => Some(vec![(false, "amd64".into()), (false, "linux-any".into()), (false, "i386".into())]),
        3 => Some(vec![(true, "amd64".into())]),
        _ => Some(vec![(true, "amd64".into()), (true, "hurd-i386".into())]),
    };
    m.profiles = match pr {
        0 => vec![],
        1 => vec![vec![(false, "nocheck".into())]],
        2 => vec![vec![(true, "nocheck".into())]],
        3 => vec![vec![(false, "cross".into()), (true, "stage1".into())]],
        _ => vec![vec![(false, "cross".into())], vec![(true, "stage1".into()), (false, "nodoc".into())]],
    };
    let other = MRel::simple("z");
    let (items, text) = match pos {
        0 => (vec![relgen::MItem::Entry(vec![m.clone()])], m.canonical()),
        1 => (vec![relgen::MItem::Entry(vec![m.clone(), other.clone()])], format!("{} | {}", m.canonical(), other.canonical())),
        _ => (vec![relgen::MItem::Entry(vec![other.clone()]), relgen::MItem::Entry(vec![m.clone()])], format!("{}, {}", other.canonical(), m.canonical())),
    };
    let mut feats: Vec<&'static str> = vec![];
    if ver.is_some_and(|v| v.contains(':')) {
        feats.push("epoch");
    }
    if ar >= 3 {
        feats.push("negated-arch");
    }
    if pr >= 3 {
        feats.push("multi-term-profile");
    }
    if aq.is_some() {
        feats.push("archqual");
    }
    let g = GRel { items, text, features: feats };
    let ok = check_field(ctx, &g);
    ctx.count(if ok { "held" } else { "violated" });
    ctx.distinct_exact += 1;
    if idx % 1777 == 3 {
        ctx.sample(|| json!({"input": g.text}));
    }
}
