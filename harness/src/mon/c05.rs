//! C05 — adding, inserting and removing paragraphs behaves like list
//! operations; other paragraphs and comments keep their text; paragraphs stay
//! separated so the printed document re-reads to the same paragraphs.
use super::c04::{gen_field_op, Hist, Op, CAT_DOCS};
use crate::gen::{self, GOpts};
use crate::rt::{clip, guard, Ctx, Lane};
use std::str::FromStr;
use serde_json::json;

pub fn lanes() -> Vec<Lane> {
    vec![
        Lane { name: "histories", count: |c| if c.thorough() { 1_000_000 } else { 150_000 }, run: hist_lane },
        Lane { name: "catalog", count: |c| (CAT_DOCS.len() as u64 + 1) * if c.thorough() { 18 * 18 * 18 * 18 + 18 * 18 * 18 + 18 * 18 + 18 } else { 18 * 18 * 18 + 18 * 18 + 18 }, run: catalog_lane },
    ]
}

fn hist_lane(ctx: &mut Ctx, idx: u64) {
    let mut r = ctx.rng();
    let from_empty = idx % 5 == 0;
    let (text, feat) = if from_empty {
        (String::new(), "empty-document")
    } else {
        let d = gen::gen_doc(&mut r, &GOpts::default());
        let f = super::c03::main_feature(&d.features);
        (d.text, f)
    };
    // one start document in four is the live result of a (content-preserving) wrap-and-sort, whose tree is
    // laid out differently from what the reader builds
    let normalised = !from_empty && idx % 4 == 1;
    let start = if normalised {
        ctx.count("start:wrap_and_sort-result");
        guard(text.len() + 64, || deb822_lossless::Deb822::from_str(&text).ok().map(|d| d.wrap_and_sort(None, None))).ok().flatten().and_then(|d| Hist::from_doc(d, feat))
    } else {
        Hist::from_text(&text, feat)
    };
    let Some(mut h) = start else {
        ctx.count("skipped:start-document-rejected");
        return;
    };
    let mut uniq = 2000;
    let nops = r.range(1, if ctx.thorough() { 12 } else { 6 });
    let mut just_added: Option<usize> = None;
    for _ in 0..nops {
        let n = h.model.len();
        let op = if let Some(p) = just_added.take() {
            // usual usage: fill the paragraph that was just created
            Op::Set { p, name: r.pick(&super::c04::POOL).to_string(), value: super::c04::gen_value(&mut r, &mut uniq) }
        } else {
            match r.below(8) {
                0 | 1 => Op::AddPara,
                2 | 3 => Op::InsertPara { i: r.below(n + 3) },
                4 | 5 => Op::RemovePara { i: r.below(n + 3) },
                _ => match gen_field_op(&mut r, &h.model, &mut uniq) {
                    Some(o) => o,
                    None => Op::AddPara,
                },
            }
        };
        match &op {
            Op::AddPara => {
                if r.chance(3, 4) {
                    just_added = Some(n);
                }
            }
            Op::InsertPara { i } => {
                if r.chance(3, 4) {
                    just_added = Some((*i).min(n));
                }
            }
            _ => {}
        }
        if !h.step(ctx, &op, r.chance(1, 2)) {
            break;
        }
    }
    ctx.count(&format!("start:{}", feat));
    ctx.nontrivial(format!("{}|{:?}", text, h.log).as_bytes());
    ctx.sample(|| json!({"start": clip(&text), "ops": h.log, "final_text": clip(&h.doc.to_string())}));
}

fn cat_op(k: u64, last_created: Option<usize>) -> Op {
    match k {
        0 => Op::AddPara,
        1..=5 => Op::InsertPara { i: (k - 1) as usize },
        6..=10 => Op::RemovePara { i: (k - 6) as usize },
        11..=13 => Op::Set { p: last_created.unwrap_or(0), name: ["A", "N", "B"][(k - 11) as usize].into(), value: "v".into() },
        14 => Op::Set { p: 0, name: "N".into(), value: "v1\nv2".into() },
        15 => Op::Insert { p: 1, name: "A".into(), value: "w".into() },
        16 => Op::Remove { p: 0, name: "A".into() },
        _ => Op::Remove { p: 1, name: "B".into() },
    }
}

fn catalog_lane(ctx: &mut Ctx, idx: u64) {
    let per_doc: u64 = if ctx.thorough() { 18 * 18 * 18 * 18 + 18 * 18 * 18 + 18 * 18 + 18 } else { 18 * 18 * 18 + 18 * 18 + 18 };
    let di = (idx / per_doc) as usize;
    let mut k = idx % per_doc;
    let mut len = 1;
    let mut block = 18u64;
    while k >= block {
        k -= block;
        block *= 18;
        len += 1;
    }
    let text = if di == 0 { "" } else { CAT_DOCS[di - 1] };
    let Some(mut h) = Hist::from_text(text, "catalog") else {
        ctx.count("skipped:start-document-rejected");
        return;
    };
    let mut last_created = None;
    for n in 0..len {
        let op = cat_op(k % 18, last_created);
        k /= 18;
        // field operations need their paragraph to exist
        let need = match &op {
            Op::Set { p, .. } | Op::Insert { p, .. } | Op::Remove { p, .. } | Op::Rename { p, .. } => Some(*p),
            _ => None,
        };
        if let Some(p) = need {
            if p >= h.model.len() {
                ctx.count("skipped:catalog-op-without-paragraph");
                return;
            }
        }
        match &op {
            Op::AddPara => last_created = Some(h.model.len()),
            Op::InsertPara { i } => last_created = Some((*i).min(h.model.len())),
            Op::RemovePara { .. } => last_created = None,
            _ => {}
        }
        if !h.step(ctx, &op, n % 2 == 1) {
            break;
        }
    }
    ctx.distinct_exact += 1;
    if idx % 7919 == 3 {
        ctx.sample(|| json!({"start": text, "ops": h.log, "final_text": h.doc.to_string()}));
    }
}
