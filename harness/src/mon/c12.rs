//! C12 — dependency satisfaction is decided per Debian semantics; lossless and
//! lossy evaluators agree; the lookup form does not matter.
use crate::rt::{clip, guard, Ctx, Lane};
use debian_control::lossless::relations as ll;
use debian_control::lossy;
use debversion::Version;
use serde_json::json;
use std::collections::HashMap;
use std::str::FromStr;

/// strictly increasing by Debian Policy §5.6.12 (epoch, upstream, revision, '~')
pub const LADDER: [&str; 9] = ["0.9", "1.0~rc1", "1.0", "1.0-1", "1.0-1+b1", "1.0.1", "1.1", "1:0.5", "2:0.1"];
/// other spellings of the same Debian version (no epoch = epoch 0, no revision = revision 0, leading zeros)
pub const ALT: [&[&str]; 9] = [
    &["0:0.9", "0.9-0", "00.9"],
    &["0:1.0~rc1", "1.0~rc1-0"],
    &["0:1.0", "1.0-0", "1.00", "01.0"],
    &["0:1.0-1", "1.0-01"],
    &["0:1.0-1+b1"],
    &["0:1.0.1", "1.0.1-0", "1.0.01"],
    &["0:1.1", "1.01"],
    &["1:0.5-0", "01:0.5"],
    &["2:0.1-0", "2:0.01"],
];
const OPS: [Option<&str>; 6] = [None, Some("<<"), Some("<="), Some("="), Some(">="), Some(">>")];
const PKGS: [&str; 3] = ["p0", "lib-q1", "r2+"];

pub fn lanes() -> Vec<Lane> {
    vec![
        Lane { name: "ladder-check", count: |_| 1, run: ladder_lane },
        Lane { name: "single", count: |_| (6 * 9 * 10 * 5) as u64, run: single_lane },
        Lane { name: "fields", count: |c| if c.thorough() { 200_000 } else { 20_000 }, run: fields_lane },
        Lane { name: "long-numbers", count: |_| (BIG.len() * BIG.len() * 5) as u64, run: long_numbers_lane },
    ]
}

/// Versions with a numeric component beyond 32 bits (dates with a time stamp are common: 1.0+git20240101120000),
/// strictly increasing. Debian compares digit runs as numbers of any length.
const BIG: [&str; 5] = ["1.0+git20240101120000", "1.0+git20240102093000", "20240101120000", "20240101120001-1", "1:0.99999999999"];

fn long_numbers_lane(ctx: &mut Ctx, idx: u64) {
    let n = BIG.len() as u64;
    let (i, j, o) = ((idx % n) as usize, ((idx / n) % n) as usize, (idx / (n * n)) as usize);
    let op = OPS[1 + o].unwrap();
    let text = format!("p0 ({} {})", op, BIG[j]);
    let want = match op {
        "<<" => i < j,
        "<=" => i <= j,
        "=" => i == j,
        ">=" => i >= j,
        _ => i > j,
    };
    let res = guard(1024, || {
        let inst = Version::from_str(BIG[i]).map_err(|e| e.to_string())?;
        let closure = |name: &str| -> Option<Version> { if name == "p0" { Some(inst.clone()) } else { None } };
        let l = ll::Relations::from_str(&text)?;
        let y = lossy::Relations::from_str(&text)?;
        Ok::<_, String>(vec![("lossless::Relations::satisfied_by(closure)", l.satisfied_by(closure)), ("lossy::Relations::satisfied_by(closure)", y.satisfied_by(closure))])
    });
    ctx.count("evaluations");
    match res {
        Err(f) => ctx.violation(&format!("{}|satisfied_by|numeric-component-beyond-32-bits", f.class()), json!({"field": text, "installed": BIG[i], "failure": f.json()})),
        Ok(Err(e)) => ctx.violation("rejected|satisfied_by|numeric-component-beyond-32-bits", json!({"field": text, "installed": BIG[i], "error": e})),
        Ok(Ok(v)) => {
            for (who, got) in v {
                if got != want {
                    ctx.violation(&format!("wrong-answer|{}|numeric-component-beyond-32-bits", who), json!({"field": text, "installed": BIG[i], "expected": want, "got": got}));
                }
            }
        }
    }
    ctx.distinct_exact += 1;
    if idx % 13 == 0 {
        ctx.sample(|| json!({"field": text, "installed": BIG[i], "expected": want}));
    }
}

fn holds(op: Option<&str>, installed: Option<usize>, required: usize) -> bool {
    match (installed, op) {
        (None, _) => false,
        (Some(_), None) => true,
        (Some(i), Some("<<")) => i < required,
        (Some(i), Some("<=")) => i <= required,
        (Some(i), Some("=")) => i == required,
        (Some(i), Some(">=")) => i >= required,
        (Some(i), Some(">>")) => i > required,
        _ => unreachable!(),
    }
}

/// the ladder itself is an assumption of the oracle: check that the version type orders it as Policy says
fn ladder_lane(ctx: &mut Ctx, _idx: u64) {
    let vs: Vec<Version> = LADDER.iter().map(|s| Version::from_str(s).unwrap()).collect();
    for i in 0..vs.len() {
        for j in 0..vs.len() {
            if (i < j) != (vs[i] < vs[j]) || (i == j) != (vs[i] == vs[j]) {
                ctx.harness_error("version ladder is not strictly increasing under debversion", json!({"a": LADDER[i], "b": LADDER[j]}));
            }
        }
    }
    for (i, alts) in ALT.iter().enumerate() {
        for a in alts.iter() {
            match Version::from_str(a) {
                Ok(v) if v == vs[i] => {}
                other => ctx.harness_error("alternate spelling is not Debian-equal under debversion", json!({"rung": LADDER[i], "alt": a, "parsed": format!("{:?}", other.map(|v| v.to_string()))})),
            }
        }
    }
    ctx.distinct_exact += 1;
    ctx.sample(|| json!({"ladder": LADDER, "alternate_spellings": ALT.iter().map(|a| a.len()).sum::<usize>()}));
}

fn rel_text(pkg: &str, op: Option<&str>, req: usize) -> String {
    match op {
        None => pkg.to_string(),
        Some(o) => format!("{} ({} {})", pkg, o, LADDER[req]),
    }
}

/// evaluate a field text against an assignment with every evaluator / lookup form
/// the spelling of rung `i` selected by `variant` (0 = the canonical one)
fn spelled(i: usize, variant: usize) -> &'static str {
    if variant == 0 { LADDER[i] } else { ALT[i][(variant - 1) % ALT[i].len()] }
}

fn evaluate(text: &str, assign: &[(String, Option<usize>)], variant: usize) -> Vec<(&'static str, bool)> {
    let map: HashMap<String, Version> = assign.iter().filter_map(|(p, v)| v.map(|i| (p.clone(), Version::from_str(spelled(i, variant)).unwrap()))).collect();
    let closure = |name: &str| -> Option<Version> { map.get(name).cloned() };
    let mut out = vec![];
    let l = ll::Relations::from_str(text).unwrap();
    out.push(("lossless::Relations::satisfied_by(closure)", l.satisfied_by(closure)));
    out.push(("lossless::all(Entry::satisfied_by(closure))", l.entries().all(|e| e.satisfied_by(closure))));
    let y = lossy::Relations::from_str(text).unwrap();
    out.push(("lossy::Relations::satisfied_by(closure)", y.satisfied_by(closure)));
    out.push(("lossy::all(any(Relation::satisfied_by(closure)))", y.0.iter().all(|e| e.iter().any(|r| r.satisfied_by(closure)))));
    out.push(("lossy::all(any(Relation::satisfied_by(HashMap)))", y.0.iter().all(|e| e.iter().any(|r| r.satisfied_by(map.clone())))));
    // the single (name, version) pair form can only describe one installed package
    if map.len() == 1 {
        let (n, v) = map.iter().next().unwrap();
        let pair = (n.clone(), v.clone());
        out.push(("lossy::all(any(Relation::satisfied_by((name,version))))", y.0.iter().all(|e| e.iter().any(|r| r.satisfied_by(pair.clone())))));
    }
    out
}

/// The same field reached in other ways than parsing its text: normalised by wrap-and-sort (field, entry and
/// relation level), converted between the lossy and the lossless representation, assembled with the constructors,
/// or given its constraint through `set_version`. Conjunction and disjunction are commutative, so the expected
/// answer is the one of the text.
fn evaluate_provenances(model: &[Vec<(usize, Option<&str>, usize)>], text: &str, assign: &[(String, Option<usize>)], variant: usize) -> Vec<(&'static str, bool)> {
    use debian_control::relations::VersionConstraint;
    let map: HashMap<String, Version> = assign.iter().filter_map(|(p, v)| v.map(|i| (p.clone(), Version::from_str(spelled(i, variant)).unwrap()))).collect();
    let closure = |name: &str| -> Option<Version> { map.get(name).cloned() };
    let mut out = vec![];
    let l = ll::Relations::from_str(text).unwrap();
    out.push(("lossless::Relations::wrap_and_sort().satisfied_by(closure)", ll::Relations::from_str(text).unwrap().wrap_and_sort().satisfied_by(closure)));
    out.push(("lossless::all(Entry::wrap_and_sort().satisfied_by(closure))", l.entries().all(|e| e.wrap_and_sort().satisfied_by(closure))));
    out.push((
        "lossless::all(any(Relation::wrap_and_sort()-as-entry.satisfied_by(closure)))",
        l.entries().all(|e| e.relations().any(|r| ll::Entry::from(r.wrap_and_sort()).satisfied_by(closure))),
    ));
    let y = lossy::Relations::from_str(text).unwrap();
    let from_lossy: ll::Relations = y.0.iter().map(|e| ll::Entry::from(e.iter().cloned().map(ll::Relation::from).collect::<Vec<_>>())).collect::<Vec<_>>().into();
    out.push(("lossless-from-lossy::Relations::satisfied_by(closure)", from_lossy.satisfied_by(closure)));
    let to_lossy: Vec<Vec<lossy::Relation>> = l.entries().map(|e| e.into()).collect();
    out.push(("lossy-from-lossless::all(any(Relation::satisfied_by(closure)))", to_lossy.iter().all(|e| e.iter().any(|r| r.satisfied_by(closure)))));
    let to_lossy_ws: Vec<Vec<lossy::Relation>> = ll::Relations::from_str(text).unwrap().wrap_and_sort().entries().map(|e| e.into()).collect();
    out.push(("lossy-from-lossless-wrap_and_sort::all(any(Relation::satisfied_by(closure)))", to_lossy_ws.iter().all(|e| e.iter().any(|r| r.satisfied_by(closure)))));
    let vc = |o: &str| VersionConstraint::from_str(o).unwrap();
    let built: ll::Relations = model
        .iter()
        .map(|e| ll::Entry::from(e.iter().map(|(p, o, q)| ll::Relation::new(PKGS[*p], o.map(|o| (vc(o), Version::from_str(LADDER[*q]).unwrap())))).collect::<Vec<_>>()))
        .collect::<Vec<_>>()
        .into();
    out.push(("lossless-built(Relation::new)::Relations::satisfied_by(closure)", built.satisfied_by(closure)));
    let set: ll::Relations = model
        .iter()
        .map(|e| {
            ll::Entry::from(
                e.iter()
                    .map(|(p, o, q)| {
                        let mut r = ll::Relation::simple(PKGS[*p]);
                        if let Some(o) = o {
                            r.set_version(Some((vc(o), Version::from_str(LADDER[*q]).unwrap())));
                        }
                        r
                    })
                    .collect::<Vec<_>>(),
            )
        })
        .collect::<Vec<_>>()
        .into();
    out.push(("lossless-built(Relation::set_version)::Relations::satisfied_by(closure)", set.satisfied_by(closure)));
    out
}

fn single_lane(ctx: &mut Ctx, idx: u64) {
    let variant = (idx / 540) as usize;
    let idx = idx % 540;
    let op = OPS[(idx % 6) as usize];
    let req = ((idx / 6) % 9) as usize;
    let inst = match idx / 54 {
        0 => None,
        k => Some((k - 1) as usize),
    };
    let text = rel_text("p0", op, req);
    let assign = vec![("p0".to_string(), inst), ("other".to_string(), Some(3))];
    let want = holds(op, inst, req);
    let model1 = vec![vec![(0usize, op, req)]];
    let res = guard(1024, || {
        let mut v = evaluate(&text, &assign, variant);
        v.extend(evaluate_provenances(&model1, &text, &assign, variant));
        v
    });
    match res {
        Err(f) => ctx.violation(&format!("{}|satisfied_by|single", f.class()), json!({"field": text, "installed": inst.map(|i| LADDER[i]), "failure": f.json()})),
        Ok(v) => {
            for (who, got) in v {
                ctx.count("evaluations");
                if got != want {
                    ctx.violation(
                        &format!("wrong-answer|{}|op:{}{}", who, op.unwrap_or("none"), if variant > 0 { ",respelled" } else { "" }),
                        json!({"field": text, "installed": inst.map(|i| spelled(i, variant)), "expected": want, "got": got, "evaluator": who}),
                    );
                }
            }
        }
    }
    ctx.distinct_exact += 1;
    if idx % 97 == 0 {
        ctx.sample(|| json!({"field": text, "installed": inst.map(|i| LADDER[i]), "expected": want}));
    }
}

fn fields_lane(ctx: &mut Ctx, _idx: u64) {
    let mut r = ctx.rng();
    // a random field of <=3 entries x <=3 alternatives over 3 packages
    let ne = r.range(1, 3);
    let mut model: Vec<Vec<(usize, Option<&str>, usize)>> = vec![];
    for _ in 0..ne {
        let na = r.range(1, 3);
        model.push((0..na).map(|_| (r.below(3), OPS[r.below(6)], r.below(9))).collect());
    }
    // one field in three is written in a free layout (a folded field: blanks, tabs and line breaks between and
    // inside the parts, none where none is needed): the answer depends on the content only
    let text = if r.chance(1, 3) {
        let mut t = String::new();
        for (i, e) in model.iter().enumerate() {
            if i > 0 {
                t.push_str(*r.pick(&[", ", ",", ",\n ", " ,\t"]));
            }
            for (j, (p, o, q)) in e.iter().enumerate() {
                if j > 0 {
                    t.push_str(*r.pick(&[" | ", "|", "\n | ", " |\n "]));
                }
                t.push_str(PKGS[*p]);
                if let Some(o) = o {
                    t.push_str(*r.pick(&[" ", "", "  ", "\n "]));
                    t.push('(');
                    t.push_str(*r.pick(&["", " "]));
                    t.push_str(o);
                    t.push_str(*r.pick(&[" ", "", "\t", "\n ", "  "]));
                    t.push_str(LADDER[*q]);
                    t.push_str(*r.pick(&["", " ", "\n "]));
                    t.push(')');
                }
            }
        }
        ctx.count("free-layout");
        t
    } else {
        model.iter().map(|e| e.iter().map(|(p, o, q)| rel_text(PKGS[*p], *o, *q)).collect::<Vec<_>>().join(" | ")).collect::<Vec<_>>().join(", ")
    };
    // all 4^3 assignments: absent / a version below, equal to, above a pivot taken from the field
    let pivot = model[0][0].2.clamp(1, 7);
    let choices = [None, Some(pivot - 1), Some(pivot), Some(pivot + 1)];
    for a in 0..64usize {
        let inst = [choices[a % 4], choices[(a / 4) % 4], choices[a / 16]];
        let assign: Vec<(String, Option<usize>)> = (0..3).map(|k| (PKGS[k].to_string(), inst[k])).collect();
        let want = model.iter().all(|e| e.iter().any(|(p, o, q)| holds(*o, inst[*p], *q)));
        let variant = a % 5;
        let res = guard(4096, || {
            let mut v = evaluate(&text, &assign, variant);
            if a % 3 == 0 {
                v.extend(evaluate_provenances(&model, &text, &assign, variant));
            }
            v
        });
        match res {
            Err(f) => {
                ctx.violation(&format!("{}|satisfied_by|field", f.class()), json!({"field": text, "failure": f.json()}));
                return;
            }
            Ok(v) => {
                for (who, got) in v {
                    ctx.count("evaluations");
                    if got != want {
                        ctx.violation(
                            &format!("wrong-answer|{}|field", who),
                            json!({"field": text, "installed": assign.iter().map(|(p, v)| (p.clone(), v.map(|i| LADDER[i]))).collect::<Vec<_>>(), "expected": want, "got": got}),
                        );
                        return;
                    }
                }
            }
        }
        ctx.count(if want { "satisfied" } else { "unsatisfied" });
    }
    ctx.nontrivial(text.as_bytes());
    ctx.sample(|| json!({"field": clip(&text), "assignments": 64}));
}
