//! C13 — relation wrap-and-sort yields canonical, sorted, meaning-preserving,
//! strictly parseable text and is idempotent.
use super::c10::{expect, main_feature, seen_json, seen_lossless, Seen};
use crate::relgen::{self, ROpts};
use crate::rt::{clip, guard, Ctx, Lane};
use debian_control::lossless::relations::Relations;
use serde_json::{json, Value};
use std::str::FromStr;

pub fn lanes() -> Vec<Lane> {
    vec![
        Lane { name: "gen", count: |c| if c.thorough() { 2_000_000 } else { 300_000 }, run: gen_lane },
    ]
}

fn canonical_rel(s: &Seen) -> String {
    let mut t = s.name.clone();
    if let Some(a) = &s.archqual {
        t.push(':');
        t.push_str(a);
    }
    if let Some((o, v)) = &s.version {
        t.push_str(&format!(" ({} {})", o, v));
    }
    if let Some(a) = &s.archs {
        t.push_str(&format!(" [{}]", a.join(" ")));
    }
    for g in &s.profiles {
        t.push_str(&format!(" <{}>", g.join(" ")));
    }
    t
}

fn gen_lane(ctx: &mut Ctx, idx: u64) {
    let mut r = ctx.rng();
    let o = ROpts { substvars: idx % 3 == 0, ws_level: (idx % 3) as u8, inner_newlines: idx % 2 == 0, ..ROpts::default() };
    let g = relgen::gen_field(&mut r, &o);
    let feat = main_feature(&g.features);
    let has_sv = !g.substvars().is_empty();
    let t = &g.text;
    let fail = |ctx: &mut Ctx, kind: &str, out: &str, info: Value| {
        ctx.violation(&format!("{}|Relations::wrap_and_sort|{}", kind, feat), json!({"input": clip(t), "output": clip(out), "features": g.features, "info": info}));
    };
    let res = guard(t.len() * 4 + 256, || {
        let (rel, errs) = Relations::parse_relaxed(t, true);
        if !errs.is_empty() {
            return Err(errs);
        }
        let out = rel.wrap_and_sort();
        let text = out.to_string();
        let live: Vec<Vec<Seen>> = out.entries().map(|e| e.relations().map(|x| seen_lossless(&x)).collect()).collect();
        // re-read and second application
        let (re, re_errs) = if has_sv { Relations::parse_relaxed(&text, true) } else {
            match Relations::from_str(&text) {
                Ok(r) => (r, vec![]),
                Err(e) => (Relations::new(), vec![e]),
            }
        };
        let reread: Vec<Vec<Seen>> = re.entries().map(|e| e.relations().map(|x| seen_lossless(&x)).collect()).collect();
        let re_sv: Vec<String> = re.substvars().collect();
        let entries: Vec<_> = re.entries().collect();
        let sorted_entries = entries.windows(2).all(|w| w[0] <= w[1]);
        let sorted_alts = entries.iter().all(|e| {
            let rs: Vec<_> = e.relations().collect();
            rs.windows(2).all(|w| w[0] <= w[1])
        });
        let second = if re_errs.is_empty() { Some(re.wrap_and_sort().to_string()) } else { None };
        Ok((text, live, re_errs, reread, re_sv, sorted_entries, sorted_alts, second))
    });
    let (text, live, re_errs, reread, re_sv, sorted_entries, sorted_alts, second) = match res {
        Err(f) => {
            fail(ctx, &f.class(), "", f.json());
            return;
        }
        Ok(Err(_)) => {
            ctx.count("skipped:input-rejected");
            return;
        }
        Ok(Ok(x)) => x,
    };
    for f in &g.features {
        ctx.count(&format!("feature:{}", f));
    }
    ctx.nontrivial(t.as_bytes());
    if !re_errs.is_empty() {
        fail(ctx, "output-not-parseable", &text, json!({"errors": re_errs}));
        return;
    }
    if live != reread {
        fail(ctx, "reread-differs-from-live", &text, json!({"live": seen_json(&live), "reread": seen_json(&reread)}));
        return;
    }
    // canonical single-line text of the output's own structure (+ substvars as the crate placed them)
    let canon_entries: Vec<String> = reread.iter().map(|e| e.iter().map(canonical_rel).collect::<Vec<_>>().join(" | ")).collect();
    let mut want_sv = g.substvars();
    want_sv.sort();
    let mut got_sv = re_sv.clone();
    got_sv.sort();
    if want_sv != got_sv {
        fail(ctx, "substvars-changed", &text, json!({"expected": want_sv, "got": re_sv}));
        return;
    }
    if text.contains('\n') || text.contains('\t') || text.contains("  ") || text.starts_with(' ') || text.ends_with(' ') || text.ends_with(',') {
        fail(ctx, "not-canonical-layout", &text, json!({}));
        return;
    }
    // the text is the ", "-join of canonical entries and substvars in some order
    let mut pieces: Vec<String> = if text.is_empty() { vec![] } else { text.split(", ").map(|s| s.to_string()).collect() };
    pieces.sort();
    let mut want_pieces: Vec<String> = canon_entries.iter().cloned().chain(re_sv.iter().cloned()).collect();
    want_pieces.sort();
    if pieces != want_pieces {
        fail(ctx, "not-canonical-text", &text, json!({"pieces": pieces, "canonical": want_pieces}));
        return;
    }
    if reread.iter().any(|e| e.is_empty()) || text.contains(",,") || text.contains(", ,") {
        fail(ctx, "empty-entry-kept", &text, json!({}));
        return;
    }
    if !sorted_entries {
        fail(ctx, "entries-not-sorted", &text, json!({}));
        return;
    }
    if !sorted_alts {
        fail(ctx, "alternatives-not-sorted", &text, json!({}));
        return;
    }
    // same multiset of entries, each the same multiset of alternatives
    let norm = |v: &Vec<Vec<Seen>>| -> Vec<Vec<String>> {
        let mut es: Vec<Vec<String>> = v.iter().map(|e| {
            let mut a: Vec<String> = e.iter().map(|s| format!("{:?}", s)).collect();
            a.sort();
            a
        }).collect();
        es.sort();
        es
    };
    let want: Vec<Vec<Seen>> = g.entries().iter().map(|e| e.iter().map(expect).collect()).collect();
    if norm(&want) != norm(&reread) {
        fail(ctx, "meaning-changed", &text, json!({"expected": seen_json(&want), "got": seen_json(&reread)}));
        return;
    }
    if second.as_deref() != Some(text.as_str()) {
        fail(ctx, "not-idempotent", &text, json!({"second": second}));
        return;
    }
    ctx.count("held");
    ctx.sample(|| json!({"input": clip(t), "output": clip(&text), "features": g.features}));
}
