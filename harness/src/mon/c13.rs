//! C13 — relation wrap-and-sort yields canonical, sorted, meaning-preserving,
//! strictly parseable text and is idempotent.
use super::c10::{expect, main_feature, seen_json, seen_lossless, Seen};
use crate::relgen::{self, ROpts};
use crate::rt::{clip, guard, Ctx, Lane};
use debian_control::lossless::relations::Relations;
use serde_json::{json, Value};
use std::str::FromStr;

pub fn lanes() -> Vec<Lane> {
    vec![
        Lane { name: "gen", count: |c| if c.thorough() { 2_000_000 } else { 300_000 }, run: gen_lane },
        Lane { name: "built", count: |c| if c.thorough() { 400_000 } else { 60_000 }, run: built_lane },
        Lane { name: "long-numbers", count: |_| LONG.len() as u64, run: long_numbers_lane },
        Lane { name: "control", count: |c| if c.thorough() { 300_000 } else { 40_000 }, run: control_lane },
    ]
}

/// Fields whose sort has to compare versions with a digit run beyond 32 bits (date-stamped versions), with the
/// normal form they must have.
const LONG: [(&str, &str); 4] = [
    ("a (>= 0.0~git20240101123456), a (>= 0.0~git20230101123456)", "a (>= 0.0~git20230101123456), a (>= 0.0~git20240101123456)"),
    ("a (>= 2147483648), a (>= 2147483647)", "a (>= 2147483647), a (>= 2147483648)"),
    ("b (= 1.0+git20240101120000) | b (= 1.0+git20240101110000)", "b (= 1.0+git20240101110000) | b (= 1.0+git20240101120000)"),
    ("c (<< 20240101120001-1), c (<< 20240101120000)", "c (<< 20240101120000), c (<< 20240101120001-1)"),
];

fn long_numbers_lane(ctx: &mut Ctx, idx: u64) {
    let (input, want) = LONG[idx as usize];
    let res = guard(1024, || Relations::from_str(input).map(|r| r.wrap_and_sort().to_string()));
    ctx.count("evaluations");
    match res {
        Err(f) => ctx.violation(&format!("{}|Relations::wrap_and_sort|numeric-component-beyond-32-bits", f.class()), json!({"input": input, "failure": f.json()})),
        Ok(Err(e)) => ctx.violation("rejected|Relations::wrap_and_sort|numeric-component-beyond-32-bits", json!({"input": input, "error": e})),
        Ok(Ok(out)) => {
            if out != want {
                ctx.violation("wrong-normal-form|Relations::wrap_and_sort|numeric-component-beyond-32-bits", json!({"input": input, "expected": want, "got": out}));
            }
        }
    }
    ctx.distinct_exact += 1;
    ctx.sample(|| json!({"input": input, "expected": want}));
}

/// The same normalisation reached through `Control::wrap_and_sort` on a relation-valued field of a control file
/// (folded over several lines, line breaks also inside [..] and <..>): the field must come out as the normal form
/// of its value.
fn control_lane(ctx: &mut Ctx, idx: u64) {
    use debian_control::lossless::Control;
    let mut r = ctx.rng();
    let o = ROpts { substvars: idx % 3 == 0, ws_level: 1 + (idx % 2) as u8, inner_newlines: true, ..ROpts::default() };
    let g = relgen::gen_field(&mut r, &o);
    let value = g.text.trim().to_string();
    if value.is_empty() || value.contains("\n\n") {
        ctx.count("skipped:empty-or-blank-line");
        return;
    }
    let (field, head) = [("Build-Depends", "Source: x\n"), ("Depends", "Source: x\n\nPackage: y\n"), ("Build-Depends-Indep", "Source: x\n"), ("Recommends", "Source: x\n\nPackage: y\n")][(idx % 4) as usize];
    // continuation lines are indented; a line break in the value becomes a folded line
    let folded = value.replace('\n', "\n ").replace("\n \n", "\n");
    let text = format!("{}{}: {}\n", head, field, folded);
    let feat = main_feature(&g.features);
    let res = guard(text.len() * 4 + 1024, || {
        let mut c = Control::from_str(&text).map_err(|e| e.to_string())?;
        let before = c.as_deb822().paragraphs().last().and_then(|p| p.get(field)).unwrap_or_default();
        let (rel, errs) = Relations::parse_relaxed(&before, true);
        if !errs.is_empty() {
            return Ok(None);
        }
        let want = rel.wrap_and_sort().to_string();
        c.wrap_and_sort(deb822_lossless::Indentation::Spaces(1), false, None);
        let after = c.as_deb822().paragraphs().last().and_then(|p| p.get(field)).unwrap_or_default();
        Ok::<_, String>(Some((want, after)))
    });
    match res {
        Err(f) => ctx.violation(&format!("{}|Control::wrap_and_sort|{}", f.class(), feat), json!({"input": clip(&text), "failure": f.json()})),
        Ok(Err(e)) => ctx.violation(&format!("control-file-rejected|Control::from_str|{}", feat), json!({"input": clip(&text), "error": e})),
        Ok(Ok(None)) => ctx.count("skipped:value-not-accepted"),
        Ok(Ok(Some((want, after)))) => {
            let norm = |s: &str| s.split('\n').map(|l| l.trim()).filter(|l| !l.is_empty()).collect::<Vec<_>>().join(" ");
            if norm(&after) != norm(&want) {
                ctx.violation(&format!("field-differs-from-normal-form|Control::wrap_and_sort|{}", feat), json!({"input": clip(&text), "field": field, "expected": want, "got": after}));
                return;
            }
            ctx.count("held");
            ctx.nontrivial(text.as_bytes());
            ctx.sample(|| json!({"input": clip(&text), "field": field, "normal_form": want}));
        }
    }
}

fn canonical_rel(s: &Seen) -> String {
    let mut t = s.name.clone();
    if let Some(a) = &s.archqual {
        t.push(':');
        t.push_str(a);
    }
    if let Some((o, v)) = &s.version {
        t.push_str(&format!(" ({} {})", o, v));
    }
    if let Some(a) = &s.archs {
        t.push_str(&format!(" [{}]", a.join(" ")));
    }
    for g in &s.profiles {
        t.push_str(&format!(" <{}>", g.join(" ")));
    }
    t
}

fn gen_lane(ctx: &mut Ctx, idx: u64) {
    let mut r = ctx.rng();
    let o = ROpts { substvars: idx % 3 == 0, ws_level: (idx % 3) as u8, inner_newlines: idx % 2 == 0, ..ROpts::default() };
    let g = relgen::gen_field(&mut r, &o);
    let feat = main_feature(&g.features);
    let want: Vec<Vec<Seen>> = g.entries().iter().map(|e| e.iter().map(expect).collect()).collect();
    let t = g.text.clone();
    check(ctx, &g.text, &g.features, feat, g.substvars(), want, move || {
        let (rel, errs) = Relations::parse_relaxed(&t, true);
        if errs.is_empty() { Ok(rel) } else { Err(errs) }
    });
}

/// A field assembled from entry values instead of text: parsed entries, entries made of built relations, and
/// `Entry::new()` (an empty entry, which normalisation has to drop like a written one).
fn built_lane(ctx: &mut Ctx, _idx: u64) {
    use debian_control::lossless::relations::{Entry, Relation};
    let mut r = ctx.rng();
    let o = ROpts { substvars: false, ws_level: 0, max_entries: 1, empty_entries: false, trailing_comma: false, ..ROpts::default() };
    let n = r.range(1, 4);
    // per entry: None = Entry::new(); Some(text, model, how)
    let mut plan: Vec<Option<(String, Vec<Seen>, u8)>> = vec![];
    for _ in 0..n {
        if r.chance(1, 4) {
            plan.push(None);
            continue;
        }
        let g = loop {
            let g = relgen::gen_field(&mut r, &o);
            if g.entries().len() == 1 {
                break g;
            }
        };
        let model: Vec<Seen> = g.entries()[0].iter().map(expect).collect();
        plan.push(Some((g.text.trim().to_string(), model, r.below(2) as u8)));
    }
    let want: Vec<Vec<Seen>> = plan.iter().flatten().map(|(_, m, _)| m.clone()).collect();
    let desc = plan.iter().map(|p| match p { None => "Entry::new()".to_string(), Some((t, _, 0)) => format!("parse({:?})", t), Some((t, _, _)) => format!("from-relations({:?})", t) }).collect::<Vec<_>>().join(" ; ");
    let mut feats: Vec<&'static str> = vec!["built"];
    if plan.iter().any(|p| p.is_none()) {
        feats.push("empty-entry-value");
    }
    let feat = if feats.len() > 1 { "built+empty-entry-value" } else { "built" };
    let plan2 = plan.clone();
    check(ctx, &desc, &feats, feat, vec![], want, move || {
        let mut es: Vec<Entry> = vec![];
        for p in &plan2 {
            match p {
                None => es.push(Entry::new()),
                Some((t, _, 0)) => es.push(Entry::from_str(t).map_err(|e| vec![e])?),
                Some((t, _, _)) => {
                    let e = Entry::from_str(t).map_err(|e| vec![e])?;
                    let rels: Vec<Relation> = e.relations().map(|x| Relation::from_str(&x.to_string()).unwrap()).collect();
                    es.push(Entry::from(rels));
                }
            }
        }
        Ok(Relations::from(es))
    });
}

fn check(ctx: &mut Ctx, t: &str, features: &[&'static str], feat: &str, want_substvars: Vec<String>, want: Vec<Vec<Seen>>, make: impl FnOnce() -> Result<Relations, Vec<String>> + std::panic::UnwindSafe) {
    let has_sv = !want_substvars.is_empty();
    let fail = |ctx: &mut Ctx, kind: &str, out: &str, info: Value| {
        ctx.violation(&format!("{}|Relations::wrap_and_sort|{}", kind, feat), json!({"input": clip(t), "output": clip(out), "features": features, "info": info}));
    };
    let res = guard(t.len() * 4 + 256, || {
        let rel = match make() {
            Ok(r) => r,
            Err(e) => return Err::<_, Vec<String>>(e),
        };
        let out = rel.wrap_and_sort();
        let text = out.to_string();
        let live: Vec<Vec<Seen>> = out.entries().map(|e| e.relations().map(|x| seen_lossless(&x)).collect()).collect();
        // re-read and second application
        let (re, re_errs) = if has_sv { Relations::parse_relaxed(&text, true) } else {
            match Relations::from_str(&text) {
                Ok(r) => (r, vec![]),
                Err(e) => (Relations::new(), vec![e]),
            }
        };
        let reread: Vec<Vec<Seen>> = re.entries().map(|e| e.relations().map(|x| seen_lossless(&x)).collect()).collect();
        let re_sv: Vec<String> = re.substvars().collect();
        let entries: Vec<_> = re.entries().collect();
        // sorted under the crate's own order: no later element is strictly smaller than an earlier one (all pairs,
        // so that an inconsistent comparator cannot hide behind adjacent ties)
        let all_pairs_sorted = |n: usize, lt: &dyn Fn(usize, usize) -> bool| (0..n).all(|i| (i + 1..n).all(|j| !lt(j, i)));
        let sorted_entries = all_pairs_sorted(entries.len(), &|a, b| entries[a] < entries[b]);
        let sorted_alts = entries.iter().all(|e| {
            let rs: Vec<_> = e.relations().collect();
            all_pairs_sorted(rs.len(), &|a, b| rs[a] < rs[b])
        });
        let second = if re_errs.is_empty() { Some(re.wrap_and_sort().to_string()) } else { None };
        // canonical = independent of the order in which the same entries / alternatives were written: the output with
        // its entries reversed, and with the alternatives of every entry reversed, must normalise to the same text
        let mut permuted: Vec<(&'static str, String, String)> = vec![];
        if re_errs.is_empty() && !text.is_empty() {
            let pieces: Vec<&str> = text.split(", ").collect();
            let rev_entries = pieces.iter().rev().cloned().collect::<Vec<_>>().join(", ");
            let rev_alts = pieces.iter().map(|p| p.split(" | ").collect::<Vec<_>>().into_iter().rev().collect::<Vec<_>>().join(" | ")).collect::<Vec<_>>().join(", ");
            for (what, input) in [("entries-reversed", rev_entries), ("alternatives-reversed", rev_alts)] {
                if input != text {
                    let (p, e) = Relations::parse_relaxed(&input, true);
                    if e.is_empty() {
                        permuted.push((what, input, p.wrap_and_sort().to_string()));
                    }
                }
            }
        }
        Ok((text, live, re_errs, reread, re_sv, sorted_entries, sorted_alts, second, permuted))
    });
    let (text, live, re_errs, reread, re_sv, sorted_entries, sorted_alts, second, permuted) = match res {
        Err(f) => {
            fail(ctx, &f.class(), "", f.json());
            return;
        }
        Ok(Err(_)) => {
            ctx.count("skipped:input-rejected");
            return;
        }
        Ok(Ok(x)) => x,
    };
    for f in features {
        ctx.count(&format!("feature:{}", f));
    }
    ctx.nontrivial(t.as_bytes());
    if !re_errs.is_empty() {
        fail(ctx, "output-not-parseable", &text, json!({"errors": re_errs}));
        return;
    }
    if live != reread {
        fail(ctx, "reread-differs-from-live", &text, json!({"live": seen_json(&live), "reread": seen_json(&reread)}));
        return;
    }
    // canonical single-line text of the output's own structure (+ substvars as the crate placed them)
    let canon_entries: Vec<String> = reread.iter().map(|e| e.iter().map(canonical_rel).collect::<Vec<_>>().join(" | ")).collect();
    let mut want_sv = want_substvars.clone();
    want_sv.sort();
    let mut got_sv = re_sv.clone();
    got_sv.sort();
    if want_sv != got_sv {
        fail(ctx, "substvars-changed", &text, json!({"expected": want_sv, "got": re_sv}));
        return;
    }
    if text.contains('\n') || text.contains('\t') || text.contains("  ") || text.starts_with(' ') || text.ends_with(' ') || text.ends_with(',') {
        fail(ctx, "not-canonical-layout", &text, json!({}));
        return;
    }
    // the text is the ", "-join of canonical entries and substvars in some order
    let mut pieces: Vec<String> = if text.is_empty() { vec![] } else { text.split(", ").map(|s| s.to_string()).collect() };
    pieces.sort();
    let mut want_pieces: Vec<String> = canon_entries.iter().cloned().chain(re_sv.iter().cloned()).collect();
    want_pieces.sort();
    if pieces != want_pieces {
        fail(ctx, "not-canonical-text", &text, json!({"pieces": pieces, "canonical": want_pieces}));
        return;
    }
    if reread.iter().any(|e| e.is_empty()) || text.contains(",,") || text.contains(", ,") {
        fail(ctx, "empty-entry-kept", &text, json!({}));
        return;
    }
    if !sorted_entries {
        fail(ctx, "entries-not-sorted", &text, json!({}));
        return;
    }
    if !sorted_alts {
        fail(ctx, "alternatives-not-sorted", &text, json!({}));
        return;
    }
    // same multiset of entries, each the same multiset of alternatives
    let norm = |v: &Vec<Vec<Seen>>| -> Vec<Vec<String>> {
        let mut es: Vec<Vec<String>> = v.iter().map(|e| {
            let mut a: Vec<String> = e.iter().map(|s| format!("{:?}", s)).collect();
            a.sort();
            a
        }).collect();
        es.sort();
        es
    };
    if norm(&want) != norm(&reread) {
        fail(ctx, "meaning-changed", &text, json!({"expected": seen_json(&want), "got": seen_json(&reread)}));
        return;
    }
    if second.as_deref() != Some(text.as_str()) {
        fail(ctx, "not-idempotent", &text, json!({"second": second}));
        return;
    }
    for (what, input, out) in &permuted {
        ctx.count("permutations-checked");
        if *out != text {
            fail(ctx, &format!("order-dependent-output:{}", what), &text, json!({"permuted_input": clip(input), "its_output": clip(out)}));
            return;
        }
    }
    ctx.count("held");
    ctx.sample(|| json!({"input": clip(t), "output": clip(&text), "features": features}));
}
