//! C11 — editing relationship fields matches a list-of-lists model and keeps
//! the field well-formed (separators neither duplicated, dangling nor fused).
use super::c10::{expect, seen_json, seen_lossless, Seen};
use crate::relgen::{self, MItem, MRel, ROpts};
use crate::rt::{clip, guard, Ctx, Lane, Rng};
use debian_control::lossless::relations::{Entry, Relation, Relations};
use debian_control::relations::{BuildProfile, VersionConstraint};
use serde_json::{json, Value};
use std::str::FromStr;

pub fn lanes() -> Vec<Lane> {
    vec![
        Lane { name: "histories", count: |c| if c.thorough() { 1_000_000 } else { 150_000 }, run: hist_lane },
        Lane { name: "from-empty", count: |c| if c.thorough() { 400_000 } else { 60_000 }, run: empty_lane },
        Lane { name: "catalog", count: |c| CAT_FIELDS.len() as u64 * if c.thorough() { NOPS * NOPS * NOPS + NOPS * NOPS + NOPS } else { NOPS * NOPS + NOPS }, run: catalog_lane },
    ]
}

#[derive(Clone, Debug)]
pub enum Op {
    Push(Vec<MRel>, u8),
    Insert(usize, Vec<MRel>, u8),
    Replace(usize, Vec<MRel>, u8),
    RemoveEntry(usize),
    EntryRemove(usize),
    EntryPush(usize, MRel, u8),
    EntryReplace(usize, usize, MRel, u8),
    EntryRemoveRel(usize, usize),
    RelRemove(usize, usize),
    SetVersion(usize, usize, Option<(String, String)>),
    DropConstraint(usize, usize),
    SetArchqual(usize, usize, String),
    SetArchs(usize, usize, Vec<String>),
    AddProfile(usize, usize, Vec<(bool, String)>),
}

const CTORS: [&str; 8] = ["from_str", "new+setters", "builder", "from-lossy", "from-vec", "from_str+trailing-blank", "handle-into-another-field", "handle-into-this-field"];

impl Op {
    fn kind(&self) -> &'static str {
        match self {
            Op::Push(..) => "Relations::push",
            Op::Insert(..) => "Relations::insert",
            Op::Replace(..) => "Relations::replace",
            Op::RemoveEntry(..) => "Relations::remove_entry",
            Op::EntryRemove(..) => "Entry::remove",
            Op::EntryPush(..) => "Entry::push",
            Op::EntryReplace(..) => "Entry::replace",
            Op::EntryRemoveRel(..) => "Entry::remove_relation",
            Op::RelRemove(..) => "Relation::remove",
            Op::SetVersion(_, _, Some(_)) => "Relation::set_version(Some)",
            Op::SetVersion(_, _, None) => "Relation::set_version(None)",
            Op::DropConstraint(..) => "Relation::drop_constraint",
            Op::SetArchqual(..) => "Relation::set_archqual",
            Op::SetArchs(..) => "Relation::set_architectures",
            Op::AddProfile(..) => "Relation::add_profile",
        }
    }
    fn ctor(&self) -> Option<u8> {
        match self {
            Op::Push(_, c) | Op::Insert(_, _, c) | Op::Replace(_, _, c) | Op::EntryPush(_, _, c) | Op::EntryReplace(_, _, _, c) => Some(*c),
            _ => None,
        }
    }
    fn json(&self) -> Value {
        let e = |v: &Vec<MRel>| v.iter().map(|m| m.canonical()).collect::<Vec<_>>().join(" | ");
        match self {
            Op::Push(v, c) => json!({"op": self.kind(), "entry": e(v), "built": CTORS[*c as usize]}),
            Op::Insert(i, v, c) => json!({"op": self.kind(), "index": i, "entry": e(v), "built": CTORS[*c as usize]}),
            Op::Replace(i, v, c) => json!({"op": self.kind(), "index": i, "entry": e(v), "built": CTORS[*c as usize]}),
            Op::RemoveEntry(i) | Op::EntryRemove(i) => json!({"op": self.kind(), "entry_index": i}),
            Op::EntryPush(i, m, c) => json!({"op": self.kind(), "entry_index": i, "relation": m.canonical(), "built": CTORS[*c as usize]}),
            Op::EntryReplace(i, j, m, c) => json!({"op": self.kind(), "entry_index": i, "relation_index": j, "relation": m.canonical(), "built": CTORS[*c as usize]}),
            Op::EntryRemoveRel(i, j) | Op::RelRemove(i, j) | Op::DropConstraint(i, j) => json!({"op": self.kind(), "entry_index": i, "relation_index": j}),
            Op::SetVersion(i, j, v) => json!({"op": self.kind(), "entry_index": i, "relation_index": j, "version": v}),
            Op::SetArchqual(i, j, a) => json!({"op": self.kind(), "entry_index": i, "relation_index": j, "archqual": a}),
            Op::SetArchs(i, j, a) => json!({"op": self.kind(), "entry_index": i, "relation_index": j, "architectures": a}),
            Op::AddProfile(i, j, p) => json!({"op": self.kind(), "entry_index": i, "relation_index": j, "profile": p}),
        }
    }
}

fn vc(op: &str) -> VersionConstraint {
    VersionConstraint::from_str(op).unwrap()
}
fn profile_of(g: &[(bool, String)]) -> Vec<BuildProfile> {
    g.iter().map(|(n, p)| if *n { BuildProfile::Disabled(p.clone()) } else { BuildProfile::Enabled(p.clone()) }).collect()
}
fn arch_strings(m: &MRel) -> Option<Vec<String>> {
    m.archs.as_ref().map(|a| a.iter().map(|(n, a)| format!("{}{}", if *n { "!" } else { "" }, a)).collect())
}

/// Build a real relation for a model relation with constructor `ctor`.
pub fn build_relation(m: &MRel, ctor: u8) -> Relation {
    let version = m.version.as_ref().map(|(o, v)| (vc(o), debversion::Version::from_str(v).unwrap()));
    match ctor {
        0 | 4 => Relation::from_str(&m.canonical()).unwrap(),
        1 => {
            let mut r = Relation::new(&m.name, version);
            if let Some(a) = &m.archqual {
                r.set_archqual(a);
            }
            if let Some(a) = arch_strings(m) {
                r.set_architectures(a.iter().map(|s| s.as_str()));
            }
            for g in &m.profiles {
                r.add_profile(&profile_of(g));
            }
            r
        }
        2 => {
            let mut b = Relation::build(&m.name);
            if let Some((c, v)) = version {
                b = b.version_constraint(c, v);
            }
            if let Some(a) = &m.archqual {
                b = b.archqual(a);
            }
            if let Some(a) = arch_strings(m) {
                b = b.architectures(a);
            }
            for g in &m.profiles {
                b = b.add_profile(profile_of(g));
            }
            b.build()
        }
        _ => {
            let l = debian_control::lossy::Relation {
                name: m.name.clone(),
                archqual: m.archqual.clone(),
                architectures: arch_strings(m),
                version,
                profiles: m.profiles.iter().map(|g| profile_of(g)).collect(),
            };
            Relation::from(l)
        }
    }
}

pub fn build_entry(v: &[MRel], ctor: u8) -> Entry {
    match ctor {
        0 => Entry::from_str(&v.iter().map(|m| m.canonical()).collect::<Vec<_>>().join(" | ")).unwrap(),
        4 => Entry::from(v.iter().map(|m| build_relation(m, 0)).collect::<Vec<_>>()),
        3 => {
            let l: Vec<debian_control::lossy::Relation> = v.iter().map(|m| debian_control::lossy::Relation::from(build_relation(m, 0))).collect();
            Entry::from(l)
        }
        c => {
            if v.len() == 1 {
                Entry::from(build_relation(&v[0], c))
            } else {
                let mut e = Entry::new();
                for m in v {
                    e.push(build_relation(m, c));
                }
                e
            }
        }
    }
}

pub struct RH {
    pub root: Relations,
    pub model: Vec<MItem>,
    pub log: Vec<Value>,
    pub start: String,
    pub shape: String,
    /// an entry handle obtained earlier from the field and kept across operations (entry index, handle)
    pub held_entry: Option<(usize, Entry)>,
    /// a relation handle kept across operations (entry index, alternative index, handle)
    pub held_rel: Option<(usize, usize, Relation)>,
    /// second handles to the same targets, obtained at the same time: operations alternate between the two,
    /// so an edit through one handle has to leave the other one attached
    pub held_entry2: Option<Entry>,
    pub held_rel2: Option<Relation>,
    /// use the kept handles (when they address the operation's target) instead of fetching fresh ones
    pub use_held: bool,
}

fn entry_pos(model: &[MItem], i: usize) -> usize {
    // position in `model` of the i-th Entry item
    model.iter().enumerate().filter(|(_, m)| matches!(m, MItem::Entry(_))).nth(i).map(|(k, _)| k).unwrap()
}
fn n_entries(model: &[MItem]) -> usize {
    model.iter().filter(|m| matches!(m, MItem::Entry(_))).count()
}
fn model_entries(model: &[MItem]) -> Vec<Vec<Seen>> {
    model.iter().filter_map(|m| if let MItem::Entry(e) = m { Some(e.iter().map(expect).collect()) } else { None }).collect()
}
fn model_substvars(model: &[MItem]) -> Vec<String> {
    model.iter().filter_map(|m| if let MItem::Substvar(s) = m { Some(s.clone()) } else { None }).collect()
}

fn live_entries(r: &Relations) -> Vec<Vec<Seen>> {
    let v: Vec<Vec<Seen>> = r.entries().map(|e| e.relations().map(|x| seen_lossless(&x)).collect()).collect();
    // the other views of the same list (iter, len, is_empty, get_entry/get_relation) must tell the same story:
    // a disagreement shows as a live mismatch (an extra pseudo-entry in the result)
    let via_iter: Vec<Vec<Seen>> = r.iter().map(|e| e.iter().map(|x| seen_lossless(&x)).collect()).collect();
    let lens_ok = r.len() == v.len()
        && r.is_empty() == v.is_empty()
        && r.entries().zip(v.iter()).all(|(e, m)| e.len() == m.len() && e.is_empty() == m.is_empty())
        && (0..v.len()).all(|i| r.get_entry(i).is_some_and(|e| (0..v[i].len()).all(|j| e.get_relation(j).is_some_and(|x| seen_lossless(&x) == v[i][j])) && e.get_relation(v[i].len()).is_none()))
        && r.get_entry(v.len()).is_none();
    if via_iter != v || !lens_ok {
        let mut w = v;
        w.push(vec![]);
        return w;
    }
    v
}
fn entry_texts(r: &Relations) -> Vec<String> {
    r.entries().map(|e| e.to_string().trim().to_string()).collect()
}
fn comma_surplus(text: &str, items: usize) -> i64 {
    text.matches(',').count() as i64 - (items.max(1) as i64 - 1)
}
fn pipe_surplus(text: &str, model: &[MItem]) -> i64 {
    let alts: usize = model.iter().map(|m| if let MItem::Entry(e) = m { e.len().saturating_sub(1) } else { 0 }).sum();
    text.matches('|').count() as i64 - alts as i64
}

impl RH {
    pub fn from_text(text: &str, model: Vec<MItem>) -> Option<RH> {
        let (root, errs) = Relations::parse_relaxed(text, true);
        if !errs.is_empty() {
            return None;
        }
        Some(RH { root, model, log: vec![], start: text.to_string(), shape: String::new(), held_entry: None, held_rel: None, held_entry2: None, held_rel2: None, use_held: true })
    }

    fn fail(&self, ctx: &mut Ctx, kind: &str, op: &Op, info: Value) {
        let text = guard(4096, || self.root.to_string()).unwrap_or_else(|_| "<printing panicked>".into());
        ctx.violation(
            &format!("{}|{}|{}", kind, op.kind(), self.shape),
            json!({"start": clip(&self.start), "ops": self.log, "text_after": clip(&text), "model": format!("{:?}", self.model), "info": info}),
        );
    }

    fn op_shape(&self, op: &Op) -> String {
        let n = n_entries(&self.model);
        let pos = |i: usize, len: usize| if len <= 1 { "only" } else if i == 0 { "first" } else if i + 1 == len { "last" } else if i >= len { "end" } else { "middle" };
        let (e, r) = match op {
            Op::Push(..) => ("end".to_string(), String::new()),
            Op::Insert(i, ..) => (if *i >= n { "end" } else { pos(*i, n.max(2)) }.to_string(), String::new()),
            Op::Replace(i, ..) | Op::RemoveEntry(i) | Op::EntryRemove(i) | Op::EntryPush(i, ..) => (pos(*i, n).to_string(), String::new()),
            Op::EntryReplace(i, j, ..) | Op::EntryRemoveRel(i, j) | Op::RelRemove(i, j) | Op::SetVersion(i, j, _) | Op::DropConstraint(i, j) | Op::SetArchqual(i, j, _) | Op::SetArchs(i, j, _) | Op::AddProfile(i, j, _) => {
                let len = if let MItem::Entry(e) = &self.model[entry_pos(&self.model, *i)] { e.len() } else { 0 };
                (pos(*i, n).to_string(), format!("/alt:{}", pos(*j, len)))
            }
        };
        let c = op.ctor().map(|c| format!(",built:{}", CTORS[c as usize])).unwrap_or_default();
        let sv = if model_substvars(&self.model).is_empty() { "" } else { ",substvars" };
        let nl = if self.start.contains('\n') { ",newlines" } else { "" };
        format!("entry:{}{}{}{}{}", e, r, c, sv, nl)
    }

    pub fn step(&mut self, ctx: &mut Ctx, op: &Op) -> bool {
        self.log.push(op.json());
        self.shape = self.op_shape(op);
        ctx.count(&format!("op:{}", op.kind()));
        let before_text = self.root.to_string();
        let before_entries = entry_texts(&self.root);
        // separators are counted against real items (entries and substitution variables);
        // empty entries of the start text are surplus separators already
        let real = |m: &[MItem]| m.iter().filter(|x| !matches!(x, MItem::Empty)).count();
        let before_items = real(&self.model);
        let before_commas = comma_surplus(&before_text, before_items);
        let before_pipes = pipe_surplus(&before_text, &self.model);
        // ---- real object
        let root = &mut self.root;
        let use_held = self.use_held;
        let held_entry = &mut self.held_entry;
        let held_rel = &mut self.held_rel;
        let held_entry2 = &mut self.held_entry2;
        let held_rel2 = &mut self.held_rel2;
        let alias = self.log.len() % 2 == 0;
        let model_now = self.model.clone();
        let res = guard(before_text.len() + 512, || {
            // entry / relation handles: the ones kept from an earlier operation when they address the
            // same target (an edit through a handle must be visible in the field), otherwise fresh ones,
            // which are then kept for later operations. Two handles are kept per target and used in turn.
            let mut entry = |root: &Relations, i: usize| -> *mut Entry {
                if !(use_held && matches!(held_entry, Some((k, _)) if *k == i)) {
                    *held_entry = Some((i, root.get_entry(i).unwrap()));
                    *held_entry2 = Some(root.get_entry(i).unwrap());
                }
                if alias { held_entry2.as_mut().unwrap() as *mut Entry } else { &mut held_entry.as_mut().unwrap().1 as *mut Entry }
            };
            let mut rel = |root: &Relations, i: usize, j: usize| -> *mut Relation {
                if !(use_held && matches!(held_rel, Some((a, b, _)) if *a == i && *b == j)) {
                    *held_rel = Some((i, j, root.get_entry(i).unwrap().get_relation(j).unwrap()));
                    *held_rel2 = Some(root.get_entry(i).unwrap().get_relation(j).unwrap());
                }
                if alias { held_rel2.as_mut().unwrap() as *mut Relation } else { &mut held_rel.as_mut().unwrap().2 as *mut Relation }
            };
            // operands: built by a constructor, parsed with a trailing blank, or a handle that is attached to
            // another field or to this field (the list model copies; the field the handle lives in must not change)
            let mut donor: Option<(Relations, String)> = None;
            let canon_entry = |v: &[MRel]| v.iter().map(|m| m.canonical()).collect::<Vec<_>>().join(" | ");
            let mut mk_entry = |root: &Relations, v: &[MRel], c: u8| -> Entry {
                match c {
                    5 => Entry::from_str(&format!("{} ", canon_entry(v))).unwrap(),
                    6 => {
                        let d = Relations::from_str(&format!("x, {}, y", canon_entry(v))).unwrap();
                        let e = d.get_entry(1).unwrap();
                        let before = d.to_string();
                        donor = Some((d, before));
                        e
                    }
                    7 => {
                        let k = model_now.iter().filter(|m| matches!(m, MItem::Entry(_))).position(|m| matches!(m, MItem::Entry(e) if e[..] == *v));
                        match k {
                            Some(k) => root.get_entry(k).unwrap(),
                            None => build_entry(v, 0),
                        }
                    }
                    c => build_entry(v, c),
                }
            };
            let mut donor_r: Option<(Relations, String)> = None;
            let mut mk_rel = |root: &Relations, m: &MRel, c: u8| -> Relation {
                match c {
                    5 => Relation::from_str(&format!("{} ", m.canonical())).unwrap(),
                    6 => {
                        let d = Relations::from_str(&format!("x | {} | y, w", m.canonical())).unwrap();
                        let r = d.get_entry(0).unwrap().get_relation(1).unwrap();
                        let before = d.to_string();
                        donor_r = Some((d, before));
                        r
                    }
                    7 => {
                        let mut found = None;
                        for (k, it) in model_now.iter().filter(|m| matches!(m, MItem::Entry(_))).enumerate() {
                            if let MItem::Entry(e) = it {
                                if let Some(l) = e.iter().position(|x| x == m) {
                                    found = Some((k, l));
                                    break;
                                }
                            }
                        }
                        match found {
                            Some((k, l)) => root.get_entry(k).unwrap().get_relation(l).unwrap(),
                            None => build_relation(m, 0),
                        }
                    }
                    c => build_relation(m, c),
                }
            };
            unsafe {
                match op {
                    Op::Push(v, c) => {
                        let e = mk_entry(root, v, *c);
                        root.push(e)
                    }
                    Op::Insert(i, v, c) => {
                        let e = mk_entry(root, v, *c);
                        root.insert(*i, e)
                    }
                    Op::Replace(i, v, c) => {
                        let e = mk_entry(root, v, *c);
                        root.replace(*i, e)
                    }
                    Op::RemoveEntry(i) => {
                        root.remove_entry(*i);
                    }
                    Op::EntryRemove(i) => (*entry(root, *i)).remove(),
                    Op::EntryPush(i, m, c) => {
                        let x = mk_rel(root, m, *c);
                        (*entry(root, *i)).push(x)
                    }
                    Op::EntryReplace(i, j, m, c) => {
                        let x = mk_rel(root, m, *c);
                        (*entry(root, *i)).replace(*j, x)
                    }
                    Op::EntryRemoveRel(i, j) => {
                        (*entry(root, *i)).remove_relation(*j);
                    }
                    Op::RelRemove(i, j) => (*rel(root, *i, *j)).remove(),
                    Op::SetVersion(i, j, v) => (*rel(root, *i, *j)).set_version(v.as_ref().map(|(o, v)| (vc(o), debversion::Version::from_str(v).unwrap()))),
                    Op::DropConstraint(i, j) => {
                        (*rel(root, *i, *j)).drop_constraint();
                    }
                    Op::SetArchqual(i, j, a) => (*rel(root, *i, *j)).set_archqual(a),
                    Op::SetArchs(i, j, a) => (*rel(root, *i, *j)).set_architectures(a.iter().map(|s| s.as_str())),
                    Op::AddProfile(i, j, p) => (*rel(root, *i, *j)).add_profile(&profile_of(p)),
                }
            }
            // the field an operand handle was attached to keeps its text
            for (d, before) in donor.iter().chain(donor_r.iter()) {
                let after = d.to_string();
                if after != *before {
                    return Some((before.clone(), after));
                }
            }
            None
        });
        // kept handles stay valid only while their target keeps its place in the lists
        match op {
            Op::Push(..) => {}
            Op::Insert(..) | Op::Replace(..) | Op::RemoveEntry(..) | Op::EntryRemove(..) => {
                self.held_entry = None;
                self.held_rel = None;
                self.held_entry2 = None;
                self.held_rel2 = None;
            }
            Op::EntryReplace(..) | Op::EntryRemoveRel(..) | Op::RelRemove(..) => {
                // alternatives moved (and the entry may be gone when its last alternative went)
                self.held_rel = None;
                self.held_rel2 = None;
                if !matches!(op, Op::EntryReplace(..)) {
                    self.held_entry = None;
                    self.held_entry2 = None;
                }
            }
            Op::EntryPush(..) => {}
            _ => {}
        }
        // ---- model
        let mut touched: Option<usize> = None; // entry index (after the op) whose text may change
        let mut removed: Option<usize> = None;
        let mut inserted: Option<usize> = None;
        {
            let m = &mut self.model;
            let n = n_entries(m);
            let with_rel = |m: &mut Vec<MItem>, i: usize, j: usize, f: &dyn Fn(&mut MRel)| {
                let p = entry_pos(m, i);
                if let MItem::Entry(e) = &mut m[p] {
                    f(&mut e[j]);
                }
            };
            match op {
                Op::Push(v, _) => {
                    m.push(MItem::Entry(v.clone()));
                    inserted = Some(n);
                }
                Op::Insert(i, v, _) => {
                    if *i >= n {
                        m.push(MItem::Entry(v.clone()));
                        inserted = Some(n);
                    } else {
                        let p = entry_pos(m, *i);
                        m.insert(p, MItem::Entry(v.clone()));
                        inserted = Some(*i);
                    }
                }
                Op::Replace(i, v, _) => {
                    let p = entry_pos(m, *i);
                    m[p] = MItem::Entry(v.clone());
                    touched = Some(*i);
                }
                Op::RemoveEntry(i) | Op::EntryRemove(i) => {
                    let p = entry_pos(m, *i);
                    m.remove(p);
                    removed = Some(*i);
                }
                Op::EntryPush(i, r, _) => {
                    let p = entry_pos(m, *i);
                    if let MItem::Entry(e) = &mut m[p] {
                        e.push(r.clone());
                    }
                    touched = Some(*i);
                }
                Op::EntryReplace(i, j, r, _) => {
                    with_rel(m, *i, *j, &|x| *x = r.clone());
                    touched = Some(*i);
                }
                Op::EntryRemoveRel(i, j) | Op::RelRemove(i, j) => {
                    let p = entry_pos(m, *i);
                    let mut empty = false;
                    if let MItem::Entry(e) = &mut m[p] {
                        e.remove(*j);
                        empty = e.is_empty();
                    }
                    if empty {
                        m.remove(p);
                        removed = Some(*i);
                    } else {
                        touched = Some(*i);
                    }
                }
                Op::SetVersion(i, j, v) => {
                    with_rel(m, *i, *j, &|x| x.version = v.clone());
                    touched = Some(*i);
                }
                Op::DropConstraint(i, j) => {
                    with_rel(m, *i, *j, &|x| x.version = None);
                    touched = Some(*i);
                }
                Op::SetArchqual(i, j, a) => {
                    with_rel(m, *i, *j, &|x| x.archqual = Some(a.clone()));
                    touched = Some(*i);
                }
                Op::SetArchs(i, j, a) => {
                    with_rel(m, *i, *j, &|x| x.archs = Some(a.iter().map(|s| (s.starts_with('!'), s.trim_start_matches('!').to_string())).collect()));
                    touched = Some(*i);
                }
                Op::AddProfile(i, j, p) => {
                    with_rel(m, *i, *j, &|x| x.profiles.push(p.clone()));
                    touched = Some(*i);
                }
            }
        }
        match res {
            Err(f) => {
                self.fail(ctx, &f.class(), op, f.json());
                return false;
            }
            Ok(Some((before, after))) => {
                self.fail(ctx, "operand-taken-out-of-its-field", op, json!({"operand_field_before": before, "operand_field_after": after}));
                return false;
            }
            Ok(None) => {}
        }
        // ---- checks
        let want = model_entries(&self.model);
        let want_sv = model_substvars(&self.model);
        let obs = guard(before_text.len() + 1024, || {
            let text = self.root.to_string();
            let live = live_entries(&self.root);
            let live_sv: Vec<String> = self.root.substvars().collect();
            let texts = entry_texts(&self.root);
            let (re, errs) = if want_sv.is_empty() {
                match Relations::from_str(&text) {
                    Ok(r) => (Some(r), vec![]),
                    Err(e) => (None, vec![e]),
                }
            } else {
                let (r, e) = Relations::parse_relaxed(&text, true);
                (Some(r), e)
            };
            let parsed = re.as_ref().map(|r| (live_entries(r), r.substvars().collect::<Vec<_>>()));
            (text, live, live_sv, texts, errs, parsed)
        });
        let (text, live, live_sv, texts, errs, parsed) = match obs {
            Ok(x) => x,
            Err(f) => {
                self.fail(ctx, &f.class(), op, f.json());
                return false;
            }
        };
        if !errs.is_empty() {
            self.fail(ctx, "not-parseable", op, json!({"errors": errs}));
            return false;
        }
        let (pe, psv) = parsed.unwrap();
        if pe != want || psv != want_sv {
            self.fail(ctx, "reparse-mismatch", op, json!({"expected": seen_json(&want), "reparsed": seen_json(&pe), "substvars": psv}));
            return false;
        }
        if live != want || live_sv != want_sv {
            self.fail(ctx, "live-mismatch", op, json!({"expected": seen_json(&want), "live": seen_json(&live)}));
            return false;
        }
        let commas = comma_surplus(&text, real(&self.model));
        if commas > before_commas.max(0) {
            self.fail(ctx, "surplus-comma", op, json!({"before": before_text, "surplus_before": before_commas, "surplus_after": commas}));
            return false;
        }
        let pipes = pipe_surplus(&text, &self.model);
        if pipes > before_pipes.max(0) {
            self.fail(ctx, "surplus-pipe", op, json!({"before": before_text, "surplus_before": before_pipes, "surplus_after": pipes}));
            return false;
        }
        // untouched entries keep their text
        let mut b = before_entries.clone();
        let mut a = texts.clone();
        if let Some(i) = removed {
            if i < b.len() {
                b.remove(i);
            }
        }
        if let Some(i) = inserted {
            if i < a.len() {
                a.remove(i);
            }
        }
        if let Some(i) = touched {
            if i < a.len() && i < b.len() {
                a.remove(i);
                b.remove(i);
            }
        }
        if a != b {
            self.fail(ctx, "untouched-entry-changed", op, json!({"before": b, "after": a}));
            return false;
        }
        // substitution variables keep their text
        for sv in &want_sv {
            if !text.contains(sv.as_str()) {
                self.fail(ctx, "substvar-text-lost", op, json!({"substvar": sv}));
                return false;
            }
        }
        ctx.count("checked-steps");
        true
    }
}

const POOL: [&str; 4] = ["a", "b", "libc6", "z"];

pub fn gen_op(r: &mut Rng, model: &[MItem]) -> Op {
    let o = ROpts { name_pool: Some(&POOL), ..ROpts::default() };
    let n = n_entries(model);
    let ctor = r.below(8) as u8;
    let rel_ctor = [0u8, 1, 2, 3, 5, 6, 7][r.below(7)];
    // an operand that is a handle into this field (7) denotes a copy of what it points to
    let existing: Vec<&Vec<MRel>> = model.iter().filter_map(|m| if let MItem::Entry(e) = m { Some(e) } else { None }).collect();
    let ex_entry = if existing.is_empty() { None } else { Some(existing[r.below(existing.len())].clone()) };
    let ex_rel = ex_entry.as_ref().map(|e| e[r.below(e.len())].clone());
    let ctor = if ctor == 7 && ex_entry.is_none() { 0 } else { ctor };
    let rel_ctor = if rel_ctor == 7 && ex_rel.is_none() { 0 } else { rel_ctor };
    let gen_entry = |r: &mut Rng| -> Vec<MRel> {
        if ctor == 7 {
            return ex_entry.clone().unwrap();
        }
        (0..r.range(1, 2)).map(|_| relgen::gen_relation(r, &o)).collect()
    };
    let gen_rel = |r: &mut Rng| -> MRel {
        if rel_ctor == 7 {
            return ex_rel.clone().unwrap();
        }
        relgen::gen_relation(r, &o)
    };
    if n == 0 {
        return if r.chance(1, 2) { Op::Push(gen_entry(r), ctor) } else { Op::Insert(0, gen_entry(r), ctor) };
    }
    let i = r.below(n);
    let len = if let MItem::Entry(e) = &model[entry_pos(model, i)] { e.len() } else { 1 };
    let j = r.below(len);
    match r.below(16) {
        0 => Op::Push(gen_entry(r), ctor),
        1 | 2 => Op::Insert(r.below(n + 1), gen_entry(r), ctor),
        3 => Op::Replace(i, gen_entry(r), ctor),
        4 => Op::RemoveEntry(i),
        5 => Op::EntryRemove(i),
        6 => Op::EntryPush(i, gen_rel(r), rel_ctor),
        7 => Op::EntryReplace(i, j, gen_rel(r), rel_ctor),
        8 => Op::EntryRemoveRel(i, j),
        9 => Op::RelRemove(i, j),
        10 => Op::SetVersion(i, j, Some((r.pick_s(&relgen::OPS).to_string(), r.pick_s(&relgen::VERSIONS).to_string()))),
        11 => Op::SetVersion(i, j, None),
        12 => Op::DropConstraint(i, j),
        13 => Op::SetArchqual(i, j, r.pick_s(&relgen::ARCHQUALS).to_string()),
        14 => {
            let neg = r.chance(1, 3);
            Op::SetArchs(i, j, (0..r.range(1, 3)).map(|k| format!("{}{}", if neg { "!" } else { "" }, relgen::ARCHS[(k + r.below(3)) % 6])).collect())
        }
        _ => Op::AddProfile(i, j, (0..r.range(1, 2)).map(|_| (r.chance(1, 2), r.pick_s(&relgen::PROFILES).to_string())).collect()),
    }
}

fn run_history(ctx: &mut Ctx, mut h: RH, r: &mut Rng, nops: usize) {
    for _ in 0..nops {
        let op = gen_op(r, &h.model);
        if !h.step(ctx, &op) {
            break;
        }
    }
    ctx.nontrivial(format!("{}|{:?}", h.start, h.log).as_bytes());
    ctx.sample(|| json!({"start": clip(&h.start), "ops": h.log, "final_text": clip(&h.root.to_string())}));
}

fn hist_lane(ctx: &mut Ctx, idx: u64) {
    let mut r = ctx.rng();
    let o = ROpts { substvars: idx % 3 == 0, ws_level: (idx % 3) as u8, name_pool: Some(&POOL), max_entries: 3, max_alts: 2, inner_newlines: idx % 2 == 0, ..ROpts::default() };
    let g = relgen::gen_field(&mut r, &o);
    let Some(h) = RH::from_text(&g.text, g.items.clone()) else {
        ctx.count("skipped:start-field-rejected");
        return;
    };
    // the start state must already agree with the model
    if live_entries(&h.root) != model_entries(&h.model) {
        ctx.count("skipped:start-field-misread");
        return;
    }
    let nops = r.range(1, if ctx.thorough() { 12 } else { 6 });
    run_history(ctx, h, &mut r, nops);
}

fn empty_lane(ctx: &mut Ctx, idx: u64) {
    let mut r = ctx.rng();
    let root = match idx % 3 {
        0 => Relations::new(),
        1 => Relations::from(vec![]),
        _ => Relations::from_str("").unwrap_or_default(),
    };
    let h = RH { root, model: vec![], log: vec![], start: String::new(), shape: String::new(), held_entry: None, held_rel: None, held_entry2: None, held_rel2: None, use_held: true };
    let nops = r.range(1, if ctx.thorough() { 12 } else { 7 });
    run_history(ctx, h, &mut r, nops);
}

const CAT_FIELDS: [&str; 6] = ["a", "a, b", "a | b, c", "a (>= 1.0) [amd64] <nocheck>, b:any", "a,\n b,\n c", "${misc:Depends}, a"];
const NOPS: u64 = 22;

fn cat_model(text: &str) -> Vec<MItem> {
    // written out by hand so that the catalogue does not depend on any reader
    match text {
        "a" => vec![MItem::Entry(vec![MRel::simple("a")])],
        "a, b" => vec![MItem::Entry(vec![MRel::simple("a")]), MItem::Entry(vec![MRel::simple("b")])],
        "a | b, c" => vec![MItem::Entry(vec![MRel::simple("a"), MRel::simple("b")]), MItem::Entry(vec![MRel::simple("c")])],
        "a,\n b,\n c" => vec![MItem::Entry(vec![MRel::simple("a")]), MItem::Entry(vec![MRel::simple("b")]), MItem::Entry(vec![MRel::simple("c")])],
        "${misc:Depends}, a" => vec![MItem::Substvar("${misc:Depends}".into()), MItem::Entry(vec![MRel::simple("a")])],
        _ => {
            let mut a = MRel::simple("a");
            a.version = Some((">=".into(), "1.0".into()));
            a.archs = Some(vec![(false, "amd64".into())]);
            a.profiles = vec![vec![(false, "nocheck".into())]];
            let mut b = MRel::simple("b");
            b.archqual = Some("any".into());
            vec![MItem::Entry(vec![a]), MItem::Entry(vec![b])]
        }
    }
}

fn cat_op(k: u64, model: &[MItem]) -> Option<Op> {
    let n = n_entries(model);
    let x = MRel::simple("x");
    let mut y = MRel::simple("y");
    y.version = Some(("<<".into(), "1:2.0~rc1".into()));
    let last = n.checked_sub(1);
    Some(match k {
        0 => Op::Push(vec![x], 0),
        1 => Op::Push(vec![y, x], 1),
        2 => Op::Insert(0, vec![x], 0),
        3 => Op::Insert(1.min(n), vec![x], 4),
        4 => Op::Insert(n, vec![y], 2),
        5 => Op::Replace(0, vec![x], 0),
        6 => Op::Replace(last?, vec![y], 3),
        7 => Op::RemoveEntry(0),
        8 => Op::RemoveEntry(last?),
        9 => Op::EntryRemove(n / 2),
        10 => Op::EntryPush(0, x, 0),
        11 => Op::EntryPush(last?, y, 1),
        12 => Op::EntryReplace(0, 0, x, 0),
        13 => Op::EntryRemoveRel(0, 0),
        14 => Op::RelRemove(last?, 0),
        15 => Op::SetVersion(0, 0, Some((">=".into(), "2.0".into()))),
        16 => Op::SetVersion(0, 0, None),
        17 => Op::DropConstraint(last?, 0),
        18 => Op::SetArchqual(0, 0, "native".into()),
        19 => Op::SetArchs(0, 0, vec!["i386".into(), "amd64".into()]),
        20 => Op::AddProfile(0, 0, vec![(true, "cross".into())]),
        _ => Op::AddProfile(last?, 0, vec![(false, "nodoc".into()), (true, "stage1".into())]),
    })
    .filter(|_| n > 0 || k <= 4)
}

fn catalog_lane(ctx: &mut Ctx, idx: u64) {
    let per: u64 = if ctx.thorough() { NOPS * NOPS * NOPS + NOPS * NOPS + NOPS } else { NOPS * NOPS + NOPS };
    let fi = (idx / per) as usize;
    let mut k = idx % per;
    let mut len = 1;
    let mut block = NOPS;
    while k >= block {
        k -= block;
        block *= NOPS;
        len += 1;
    }
    let text = CAT_FIELDS[fi];
    let Some(mut h) = RH::from_text(text, cat_model(text)) else {
        ctx.count("skipped:start-field-rejected");
        return;
    };
    for _ in 0..len {
        let Some(op) = cat_op(k % NOPS, &h.model) else {
            ctx.count("skipped:catalog-op-not-applicable");
            return;
        };
        k /= NOPS;
        if !h.step(ctx, &op) {
            break;
        }
    }
    ctx.distinct_exact += 1;
    if idx % 1999 == 3 {
        ctx.sample(|| json!({"start": text, "ops": h.log, "final_text": h.root.to_string()}));
    }
}
