//! C03 — well-formed deb822 documents are accepted by the strict lossless
//! reader and read back exactly as written; malformed lines are rejected.
use crate::gen::{self, GOpts};
use crate::model;
use crate::rt::{clip, guard, Ctx, Lane};
use deb822_lossless::{Deb822, Paragraph};
use serde_json::json;
use std::str::FromStr;

pub fn lanes() -> Vec<Lane> {
    vec![
        Lane { name: "gen", count: |c| if c.thorough() { 1_500_000 } else { 200_000 }, run: gen_lane },
        Lane { name: "lines-sweep", count: |c| 2 * gen::sweep_count(LINE_KINDS.len(), if c.thorough() { 7 } else { 6 }), run: lines_sweep },
        Lane { name: "corrupt", count: |c| if c.thorough() { 150_000 } else { 15_000 }, run: corrupt_lane },
    ]
}

pub const FEATURE_PRIORITY: [&str; 15] = [
    "comment-after-last-field", "comment-file-end", "comment-between-fields", "comment-before-first-field",
    "comment-between-paragraphs", "comment-file-start", "unterminated", "empty-value", "empty-first-line",
    "no-space-after-colon", "multi-blank", "leading-blank", "trailing-blank", "dup-name", "multi-line",
];

pub fn main_feature(feats: &[&'static str]) -> &'static str {
    for f in FEATURE_PRIORITY {
        if feats.contains(&f) {
            return f;
        }
    }
    "plain"
}

type Content = Vec<Vec<(String, String)>>;

/// Compare what the strict reader exposes for `text` with `expect`.
pub fn check_read(ctx: &mut Ctx, text: &str, expect: &Content, feat: &'static str) -> bool {
    let r = guard(text.len(), || {
        Deb822::from_str(text).map(|d| {
            let paras: Vec<Paragraph> = d.paragraphs().collect();
            let items: Content = paras.iter().map(|p| p.items().collect()).collect();
            let mut lookups = vec![];
            for (p, it) in paras.iter().zip(items.iter()) {
                let mut names: Vec<String> = it.iter().map(|(k, _)| k.clone()).collect();
                names.sort();
                names.dedup();
                for n in names {
                    lookups.push((
                        n.clone(),
                        p.get(&n),
                        p.get_all(&n).collect::<Vec<_>>(),
                        p.contains_key(&n),
                    ));
                }
                lookups.push(("No-Such-Field".to_string(), p.get("No-Such-Field"), p.get_all("No-Such-Field").collect(), p.contains_key("No-Such-Field")));
            }
            let keys: Vec<Vec<String>> = paras.iter().map(|p| p.keys().collect()).collect();
            (items, keys, lookups)
        })
    });
    let (items, keys, lookups) = match r {
        Err(f) => {
            ctx.violation(&format!("{}|from_str|{}", f.class(), feat), json!({"input": clip(text), "failure": f.json()}));
            return false;
        }
        Ok(Err(e)) => {
            ctx.violation(&format!("rejected-wellformed|from_str|{}", feat), json!({"input": clip(text), "error": e.to_string()}));
            return false;
        }
        Ok(Ok(x)) => x,
    };
    if &items != expect {
        ctx.violation(&format!("content-mismatch|paragraphs.items|{}", feat), json!({"input": clip(text), "expected": expect, "got": items}));
        return false;
    }
    let ekeys: Vec<Vec<String>> = expect.iter().map(|p| p.iter().map(|(k, _)| k.clone()).collect()).collect();
    if keys != ekeys {
        ctx.violation(&format!("content-mismatch|keys|{}", feat), json!({"input": clip(text), "expected": ekeys, "got": keys}));
        return false;
    }
    // lookups: get = first, get_all = all in order, contains_key
    let mut li = 0;
    for p in expect {
        let mut names: Vec<String> = p.iter().map(|(k, _)| k.clone()).collect();
        names.sort();
        names.dedup();
        names.push("No-Such-Field".to_string());
        for n in names {
            let all: Vec<String> = p.iter().filter(|(k, _)| *k == n).map(|(_, v)| v.clone()).collect();
            let (ln, g, ga, ck) = &lookups[li];
            li += 1;
            if *ln != n || *g != all.first().cloned() || *ga != all || *ck != !all.is_empty() {
                ctx.violation(&format!("lookup-mismatch|get/get_all/contains_key|{}", feat), json!({"input": clip(text), "name": n, "expected_all": all, "get": g, "get_all": ga, "contains_key": ck}));
                return false;
            }
        }
    }
    // Paragraph::from_str = first paragraph
    let pr = guard(text.len(), || Paragraph::from_str(text).map(|p| p.items().collect::<Vec<_>>()));
    match pr {
        Err(f) => {
            ctx.violation(&format!("{}|Paragraph::from_str|{}", f.class(), feat), json!({"input": clip(text), "failure": f.json()}));
            return false;
        }
        Ok(Ok(it)) => {
            if expect.first() != Some(&it) {
                ctx.violation(&format!("content-mismatch|Paragraph::from_str|{}", feat), json!({"input": clip(text), "expected": expect.first(), "got": it}));
                return false;
            }
        }
        Ok(Err(_)) => {
            if !expect.is_empty() {
                ctx.violation(&format!("rejected-wellformed|Paragraph::from_str|{}", feat), json!({"input": clip(text)}));
                return false;
            }
        }
    }
    true
}

fn gen_lane(ctx: &mut Ctx, _idx: u64) {
    let mut r = ctx.rng();
    let d = gen::gen_doc(&mut r, &GOpts::default());
    let expect = d.model();
    // guard the oracle: the independent line scanner must read the same content
    match model::read_wellformed(&d.text) {
        Some(s) if model::content(&s) == expect && s.comments == d.comments => {}
        other => {
            ctx.harness_error("generator model and reference scanner disagree", json!({"input": clip(&d.text), "model": expect, "scanner": other.map(|s| model::content(&s))}));
            return;
        }
    }
    for f in &d.features {
        ctx.count(&format!("feature:{}", f));
    }
    if d.features.is_empty() {
        ctx.count("feature:none");
    }
    let ok = check_read(ctx, &d.text, &expect, main_feature(&d.features));
    ctx.count(if ok { "held" } else { "violated" });
    ctx.nontrivial(d.text.as_bytes());
    ctx.sample(|| json!({"input": clip(&d.text), "model": expect, "features": d.features}));
}

pub const LINE_KINDS: [&str; 8] = ["\n", "#c\n", "A: v\n", "B:w\n", "A:\n", " x\n", "\ty z\n", "C: #v:\n"];

fn lines_sweep(ctx: &mut Ctx, idx: u64) {
    let unterminated = idx % 2 == 1;
    let mut t = String::new();
    gen::sweep_string(&LINE_KINDS, idx / 2, &mut t);
    if unterminated {
        if !t.ends_with('\n') || t.ends_with("\n\n") || t == "\n" {
            ctx.count("skipped:no-unterminated-variant");
            return;
        }
        t.pop();
    }
    let Some(s) = model::read_wellformed(&t) else {
        ctx.count("skipped:not-wellformed");
        return;
    };
    let expect = model::content(&s);
    let feat = if t.contains("#c") { "lines:with-comment" } else if unterminated { "lines:unterminated" } else { "lines:plain" };
    let ok = check_read(ctx, &t, &expect, feat);
    ctx.count(if ok { "held" } else { "violated" });
    ctx.distinct_exact += 1;
    if idx % 40_009 == 5 {
        ctx.sample(|| json!({"input": t, "model": expect}));
    }
}

pub const BAD_LINES: [(&str, &str); 8] = [
    ("no-colon", "garbage without colon"),
    ("bare-word", "JustAWord"),
    ("bare-word-trailing-blank", "Word "),
    ("leading-dash", "-Name: v"),
    ("empty-name", ": v"),
    ("space-in-name", "Na me: v"),
    ("non-ascii-name", "Né: v"),
    ("control-in-name", "N\u{1}: v"),
];

fn corrupt_lane(ctx: &mut Ctx, _idx: u64) {
    let mut r = ctx.rng();
    let d = gen::gen_doc(&mut r, &GOpts::default());
    let lines: Vec<&str> = d.text.split_inclusive('\n').collect();
    if lines.is_empty() {
        ctx.count("skipped:empty-document");
        return;
    }
    for (li, _) in lines.iter().enumerate() {
        for (kind, bad) in BAD_LINES {
            let mut t = String::new();
            for (j, l) in lines.iter().enumerate() {
                if j == li {
                    t.push_str(bad);
                    if l.ends_with('\n') {
                        t.push('\n');
                    }
                } else {
                    t.push_str(l);
                }
            }
            let res = guard(t.len(), || Deb822::from_str(&t).is_ok());
            match res {
                Err(f) => ctx.violation(&format!("{}|from_str|corrupt:{}", f.class(), kind), json!({"input": clip(&t), "failure": f.json()})),
                Ok(true) => ctx.violation(&format!("accepted-malformed|from_str|corrupt:{}", kind), json!({"input": clip(&t), "bad_line": bad, "line_index": li})),
                Ok(false) => ctx.count("rejected-corruptions"),
            }
            ctx.count(&format!("corrupt:{}", kind));
        }
    }
    ctx.nontrivial(d.text.as_bytes());
    ctx.sample(|| json!({"input": clip(&d.text), "lines": lines.len(), "corruptions_per_line": BAD_LINES.len()}));
}
