//! C07 — wrap-and-sort never changes content, keeps comments in front of the
//! same field/paragraph, yields strictly parseable text with the requested
//! indentation and single blank-line separation, and is idempotent.
use crate::gen::{self, GOpts};
use crate::model;
use crate::relgen::{self, ROpts};
use crate::rt::{clip, guard, Ctx, Lane, Rng};
use deb822_lossless::lossless::Entry;
use deb822_lossless::{Deb822, Indentation, Paragraph};
use serde_json::{json, Value};
use std::cell::RefCell;
use std::cmp::Ordering;
use std::str::FromStr;

pub fn lanes() -> Vec<Lane> {
    vec![
        Lane { name: "paragraph", count: |c| if c.thorough() { 1_000_000 } else { 100_000 }, run: para_lane },
        Lane { name: "document", count: |c| if c.thorough() { 800_000 } else { 80_000 }, run: doc_lane },
        Lane { name: "entry", count: |c| if c.thorough() { 200_000 } else { 15_000 }, run: entry_lane },
        Lane { name: "control", count: |c| if c.thorough() { 400_000 } else { 40_000 }, run: control_lane },
        Lane { name: "many-fields", count: |c| if c.thorough() { 20_000 } else { 2_000 }, run: many_fields_lane },
    ]
}

/// Long paragraphs and documents with many duplicate names / equal keys: a comparator leaves ties in the order
/// they were written (otherwise the first field of a name - what `get` returns - would change with reformatting).
fn many_fields_lane(ctx: &mut Ctx, idx: u64) {
    let mut r = ctx.rng();
    let names = ["Tag", "Files", "X-A", "Depends", "b", "Zz"];
    let n = r.range(33, 70);
    let fields: Vec<(String, String)> = (0..n).map(|i| (r.pick_s(&names).to_string(), format!("v{}", i))).collect();
    let kind = 1 + (idx % 2) as u8 * 2; // 1 = by key, 3 = rank(len, key): both ignore the values
    let s = Settings { indent: Indentation::Spaces(1), iel: false, mll: None, sort_entries: kind, sort_paras: 0, formatter: 0 };
    let mut want = fields.clone();
    want.sort_by(|a, b| field_cmp(kind, a, b)); // stable
    let text: String = fields.iter().map(|(k, v)| format!("{}: {}\n", k, v)).collect();
    let res = guard(text.len() * 4 + 1024, || {
        let doc = Deb822::from_str(&text).map_err(|e| e.to_string())?;
        let p = doc.paragraphs().next().ok_or("no paragraph")?;
        let out = apply_para(&p, &s);
        Ok::<_, String>((out.items().collect::<Vec<_>>(), out.to_string()))
    });
    match res {
        Err(f) => fail(ctx, &f.class(), "paragraph", &s, &text, "", f.json()),
        Ok(Err(e)) => fail(ctx, "input-rejected", "paragraph", &s, &text, "", json!({"error": e})),
        Ok(Ok((got, out))) => {
            if got != want {
                let mut a = got.clone();
                let mut b = want.clone();
                a.sort();
                b.sort();
                let kind = if a != b { "content-changed" } else { "ties-reordered" };
                fail(ctx, kind, "paragraph", &s, &text, &out, json!({"fields": n, "first_difference": got.iter().zip(want.iter()).position(|(x, y)| x != y)}));
                return;
            }
            ctx.count("held");
            ctx.max("fields", n as f64);
            ctx.nontrivial(text.as_bytes());
            ctx.sample(|| json!({"fields": n, "comparator": s.json()["sort_entries"]}));
        }
    }
}

#[derive(Clone, Copy, Debug)]
pub struct Settings {
    pub indent: Indentation,
    pub iel: bool,
    pub mll: Option<usize>,
    /// 0 none, 1 by key, 2 custom rank (key length, then key, then value)
    pub sort_entries: u8,
    /// 0 none, 1 by first value, 2 reverse by first value
    pub sort_paras: u8,
    /// 0 none, 1 identity, 2 comma -> comma-newline
    pub formatter: u8,
}

impl Settings {
    pub fn gen(r: &mut Rng) -> Settings {
        Settings {
            indent: *r.pick(&[Indentation::Spaces(1), Indentation::Spaces(2), Indentation::Spaces(4), Indentation::Spaces(7), Indentation::FieldNameLength]),
            iel: r.chance(1, 2),
            mll: *r.pick(&[None, Some(1), Some(20), Some(10_000)]),
            sort_entries: r.below(3) as u8,
            sort_paras: r.below(3) as u8,
            formatter: r.below(3) as u8,
        }
        .normalised()
    }
    /// a comparator may depend on names and values only: when a formatter rewrites
    /// the values, the value-dependent rank is replaced by the name-only rank
    fn normalised(mut self) -> Settings {
        if self.formatter != 0 && self.sort_entries == 2 {
            self.sort_entries = 3;
        }
        self
    }
    pub fn json(&self) -> Value {
        let se = ["none", "by-key", "rank(len,key,value)", "rank(len,key)"][self.sort_entries as usize];
        let sp = ["none", "by-field-names", "reverse-field-names"][self.sort_paras as usize];
        let fm = ["none", "identity", "comma-newline", "control-file formatter"][self.formatter as usize];
        json!({"indentation": format!("{:?}", self.indent), "immediate_empty_line": self.iel, "max_line_length_one_liner": self.mll,
            "sort_entries": se, "sort_paragraphs": sp, "formatter": fm})
    }
    pub fn cell(&self) -> String {
        format!("ind={:?},iel={},mll={:?},se={},sp={},fmt={}", self.indent, self.iel as u8, self.mll, self.sort_entries, self.sort_paras, self.formatter)
    }
}

fn entry_cmp(kind: u8) -> impl Fn(&Entry, &Entry) -> Ordering {
    move |a: &Entry, b: &Entry| {
        let (ka, kb) = (a.key().unwrap_or_default(), b.key().unwrap_or_default());
        match kind {
            1 => ka.cmp(&kb),
            2 => (ka.len(), &ka, norm_lines(&a.value())).cmp(&(kb.len(), &kb, norm_lines(&b.value()))),
            _ => (ka.len(), &ka).cmp(&(kb.len(), &kb)),
        }
    }
}
fn field_cmp(kind: u8, a: &(String, String), b: &(String, String)) -> Ordering {
    match kind {
        1 => a.0.cmp(&b.0),
        2 => (a.0.len(), &a.0, norm_lines(&a.1)).cmp(&(b.0.len(), &b.0, norm_lines(&b.1))),
        _ => (a.0.len(), &a.0).cmp(&(b.0.len(), &b.0)),
    }
}
/// order-independent key of a paragraph: its sorted field names
fn para_key(p: &[(String, String)]) -> Vec<String> {
    let mut k: Vec<String> = p.iter().map(|f| f.0.clone()).collect();
    k.sort();
    k
}
fn para_cmp(kind: u8) -> impl Fn(&Paragraph, &Paragraph) -> Ordering {
    move |a: &Paragraph, b: &Paragraph| {
        let ka = para_key(&a.items().collect::<Vec<_>>());
        let kb = para_key(&b.items().collect::<Vec<_>>());
        if kind == 1 { ka.cmp(&kb) } else { kb.cmp(&ka) }
    }
}

thread_local! {
    static FMT_LOG: RefCell<Vec<(String, String, String)>> = const { RefCell::new(Vec::new()) };
}
fn fmt_identity(k: &str, v: &str) -> String {
    FMT_LOG.with(|l| l.borrow_mut().push((k.to_string(), v.to_string(), v.to_string())));
    v.to_string()
}
fn fmt_comma(k: &str, v: &str) -> String {
    let out = v.split(',').map(|s| s.trim().to_string()).filter(|s| !s.is_empty()).collect::<Vec<_>>().join(",\n");
    FMT_LOG.with(|l| l.borrow_mut().push((k.to_string(), v.to_string(), out.clone())));
    out
}

/// A formatter result whose second or later line starts with '#' cannot be
/// written as a deb822 value (it would be a comment): outside the domain.
fn unrepresentable(log: &[(String, String, String)]) -> bool {
    // (an indented line starting with '#' is an ordinary continuation line; nothing is unrepresentable on that account)
    let _ = log;
    false
}

/// a value's non-blank lines, trimmed
pub fn norm_lines(v: &str) -> Vec<String> {
    v.split(['\n', '\r']).map(|l| l.trim_matches([' ', '\t']).to_string()).filter(|l| !l.is_empty()).collect()
}

fn apply_para(p: &Paragraph, s: &Settings) -> Paragraph {
    let ec1 = entry_cmp(s.sort_entries);
    let se: Option<&dyn Fn(&Entry, &Entry) -> Ordering> = if s.sort_entries == 0 { None } else { Some(&ec1) };
    let fv: Option<&dyn Fn(&str, &str) -> String> = match s.formatter {
        0 => None,
        1 => Some(&fmt_identity),
        _ => Some(&fmt_comma),
    };
    p.wrap_and_sort(s.indent, s.iel, s.mll, se, fv)
}

fn apply_doc(d: &Deb822, s: &Settings) -> Deb822 {
    let pc = para_cmp(s.sort_paras);
    let sp: Option<&dyn Fn(&Paragraph, &Paragraph) -> Ordering> = if s.sort_paras == 0 { None } else { Some(&pc) };
    let s2 = *s;
    let wp = move |p: &Paragraph| apply_para(p, &s2);
    d.wrap_and_sort(sp, Some(&wp))
}

/// comment lines of a well-formed text, each with the field (para, ordinal) that follows it (if any)
fn comment_attachment(text: &str) -> Option<Vec<(String, Option<(usize, usize, String, Vec<String>)>)>> {
    let s = model::read_wellformed(text)?;
    // walk the lines again to find what follows each comment
    let mut out = vec![];
    let mut pending: Vec<String> = vec![];
    let mut para = 0usize;
    let mut ord = 0usize;
    let mut in_para = false;
    for l in model::scan(text) {
        let body = l.raw.strip_suffix('\n').unwrap_or(l.raw).to_string();
        match l.kind {
            model::LineKind::Comment => pending.push(body),
            model::LineKind::Field => {
                let f = &s.paras[para][ord];
                for c in pending.drain(..) {
                    out.push((c, Some((para, ord, f.name.clone(), norm_lines(&f.lines.join("\n"))))));
                }
                ord += 1;
                in_para = true;
            }
            model::LineKind::Blank => {
                // comments followed by a blank line: attached to nothing in particular (kept as whole lines)
                for c in pending.drain(..) {
                    out.push((c, None));
                }
                if in_para {
                    para += 1;
                    ord = 0;
                    in_para = false;
                }
            }
            _ => {}
        }
    }
    for c in pending.drain(..) {
        out.push((c, None));
    }
    Some(out)
}

struct Expect {
    /// expected content: paragraphs of (name, normalised lines)
    paras: Vec<Vec<(String, Vec<String>)>>,
}

fn fail(ctx: &mut Ctx, kind: &str, level: &str, s: &Settings, input: &str, output: &str, info: Value) {
    let shape = format!("fmt={},sort={},{}", s.formatter, (s.sort_entries > 0 || s.sort_paras > 0) as u8, if input.contains('#') { "comments" } else { "no-comments" });
    ctx.violation(&format!("{}|{}|{}", kind, level, shape), json!({"input": clip(input), "settings": s.json(), "output": clip(output), "info": info}));
}

/// Check the text `out` produced from `input` (both whole documents) under settings `s`.
/// `live` is what the returned object reports.
fn check_output(ctx: &mut Ctx, level: &str, s: &Settings, input: &str, out: &str, live: &Vec<Vec<(String, String)>>, in_model: &Vec<Vec<(String, String)>>, fmt_log: &[(String, String, String)]) -> bool {
    // 1. strictly parseable, re-read == live
    let re = guard(out.len(), || Deb822::from_str(out).map(|d| d.paragraphs().map(|p| p.items().collect::<Vec<_>>()).collect::<Vec<_>>()));
    let re = match re {
        Err(f) => {
            fail(ctx, &f.class(), level, s, input, out, f.json());
            return false;
        }
        Ok(Err(e)) => {
            fail(ctx, "output-not-parseable", level, s, input, out, json!({"error": e.to_string()}));
            return false;
        }
        Ok(Ok(c)) => c,
    };
    let nonempty = |c: &Vec<Vec<(String, String)>>| c.iter().filter(|p| !p.is_empty()).cloned().collect::<Vec<_>>();
    if nonempty(&re) != nonempty(live) {
        fail(ctx, "reread-differs-from-live", level, s, input, out, json!({"reread": re, "live": live}));
        return false;
    }
    // The line scanners below know one line terminator. The lexer treats a lone carriage return exactly as it
    // treats a line feed (`common::is_newline`, in every state), so for them - and only for them: the strict
    // re-read above and the idempotence test use the real text - both texts are brought to line feeds.
    let (input_lf, out_lf);
    let (input, out) = if input.contains('\r') || out.contains('\r') {
        ctx.count("cr-line-ends");
        input_lf = input.replace('\r', "\n");
        out_lf = out.replace('\r', "\n");
        (&input_lf[..], &out_lf[..])
    } else {
        (input, out)
    };
    // 2. expected content
    let mut exp = Expect { paras: vec![] };
    let mut log = fmt_log.to_vec();
    for p in in_model {
        let mut fields = vec![];
        for (k, v) in p {
            let lines = if s.formatter == 0 {
                norm_lines(v)
            } else {
                // the formatter's output for this field: the logged call with this key and this value
                match log.iter().position(|(lk, lv, _)| lk == k && norm_lines(lv) == norm_lines(v)) {
                    Some(i) => {
                        let (_, _, o) = log.remove(i);
                        norm_lines(&o)
                    }
                    None => {
                        fail(ctx, "formatter-not-called", level, s, input, out, json!({"field": k}));
                        return false;
                    }
                }
            };
            fields.push((k.clone(), lines));
        }
        exp.paras.push(fields);
    }
    let got: Vec<Vec<(String, Vec<String>)>> = re.iter().map(|p| p.iter().map(|(k, v)| (k.clone(), norm_lines(v))).collect()).collect();
    let sorted = |v: &Vec<(String, Vec<String>)>| {
        let mut v = v.clone();
        v.sort();
        v
    };
    // paragraphs as multisets of fields
    let mut ep: Vec<Vec<(String, Vec<String>)>> = exp.paras.iter().map(sorted).collect();
    let mut gp: Vec<Vec<(String, Vec<String>)>> = got.iter().map(sorted).collect();
    if s.sort_paras != 0 {
        ep.sort();
        gp.sort();
    }
    if ep != gp {
        fail(ctx, "content-changed", level, s, input, out, json!({"expected": exp.paras, "got": got}));
        return false;
    }
    // 3. order
    if s.sort_paras == 0 {
        // original paragraph order (already compared positionally above); field order:
    } else {
        let keys: Vec<Vec<String>> = re.iter().map(|p| para_key(p)).collect();
        let ok = keys.windows(2).all(|w| if s.sort_paras == 1 { w[0] <= w[1] } else { w[0] >= w[1] });
        if !ok {
            fail(ctx, "paragraphs-not-sorted", level, s, input, out, json!({"keys": keys}));
            return false;
        }
    }
    for (pi, p) in re.iter().enumerate() {
        if s.sort_entries == 0 || level == "document-no-wrap" {
            // original field order
            if s.sort_paras == 0 {
                let e: Vec<&String> = exp.paras[pi].iter().map(|f| &f.0).collect();
                let g: Vec<&String> = p.iter().map(|f| &f.0).collect();
                if e != g {
                    fail(ctx, "field-order-changed", level, s, input, out, json!({"expected": e, "got": g}));
                    return false;
                }
            }
        } else if !p.windows(2).all(|w| field_cmp(s.sort_entries, &w[0], &w[1]) != Ordering::Greater) {
            fail(ctx, "fields-not-sorted", level, s, input, out, json!({"paragraph": p}));
            return false;
        }
    }
    // 4. comments: whole lines, in front of the same field
    if let Some(att_in) = comment_attachment(input) {
        let Some(att_out) = comment_attachment(out) else {
            fail(ctx, "output-not-wellformed", level, s, input, out, json!({}));
            return false;
        };
        for (c, follows) in &att_in {
            let Some((_, fo)) = att_out.iter().find(|(oc, _)| oc == c) else {
                fail(ctx, "comment-lost", level, s, input, out, json!({"comment": c}));
                return false;
            };
            if let Some((_, ord, name, lines)) = follows {
                // in front of the same field ...
                let same_field = matches!(fo, Some((_, _, n, l)) if n == name && (l == lines || s.formatter != 0));
                // ... or still the first line of the same paragraph (a comment heading a paragraph belongs to it)
                let same_para_head = *ord == 0
                    && matches!(fo, Some((po, 0, _, _)) if re.get(*po).is_some_and(|p| p.iter().any(|(k, v)| k == name && (norm_lines(v) == *lines || s.formatter != 0))));
                if !same_field && !same_para_head {
                    fail(ctx, "comment-moved", level, s, input, out, json!({"comment": c, "was_before": follows, "now_before": fo}));
                    return false;
                }
            }
        }
        if att_out.len() != att_in.len() {
            fail(ctx, "comment-count-changed", level, s, input, out, json!({"before": att_in.len(), "after": att_out.len()}));
            return false;
        }
    } else {
        ctx.count("skipped:comments-not-scannable");
    }
    // 5. indentation of continuation lines; 6. single blank line between paragraphs
    if level != "document-no-wrap" {
        let mut cur_name_len = 0usize;
        for l in model::scan(out) {
            let body = l.raw.strip_suffix('\n').unwrap_or(l.raw);
            match l.kind {
                model::LineKind::Field => cur_name_len = body.find(':').unwrap_or(0),
                model::LineKind::Cont => {
                    let want = match s.indent {
                        Indentation::Spaces(n) => n as usize,
                        Indentation::FieldNameLength => cur_name_len,
                    };
                    let have = body.len() - body.trim_start_matches(' ').len();
                    let rest = &body[have..];
                    if have != want || rest.starts_with('\t') {
                        fail(ctx, "wrong-indentation", level, s, input, out, json!({"line": body, "expected_spaces": want}));
                        return false;
                    }
                }
                _ => {}
            }
        }
    }
    if level.starts_with("document") || level == "control" {
        // between two paragraphs exactly one empty line (comment blocks may add their own lines)
        let lines = model::scan(out);
        let mut seen_field = false;
        let mut blanks = 0;
        for l in &lines {
            match l.kind {
                model::LineKind::Blank => blanks += 1,
                model::LineKind::Field => {
                    if seen_field && blanks > 1 {
                        fail(ctx, "paragraph-separation", level, s, input, out, json!({"blank_lines": blanks}));
                        return false;
                    }
                    seen_field = true;
                    blanks = 0;
                }
                model::LineKind::Comment => {
                    if blanks > 1 {
                        fail(ctx, "paragraph-separation", level, s, input, out, json!({"blank_lines": blanks}));
                        return false;
                    }
                    blanks = 0;
                }
                _ => {}
            }
        }
    }
    true
}

fn gen_input(r: &mut Rng, one_para: bool) -> gen::GDoc {
    let o = GOpts { max_paras: if one_para { 1 } else { 3 }, unicode: r.chance(1, 2), blank_continuations: r.chance(1, 2), ..GOpts::default() };
    let mut d = gen::gen_doc(r, &o);
    // one document in ten ends some or all of its lines with a lone carriage return, which the lexer takes for a
    // line end just as it does a line feed (such a document is error-free; the lanes skip inputs the strict reader
    // rejects)
    if r.chance(1, 10) {
        let all = r.chance(1, 2);
        d.text = d.text.chars().map(|c| if c == '\n' && (all || r.chance(1, 3)) { '\r' } else { c }).collect();
    }
    d
}

fn para_lane(ctx: &mut Ctx, _idx: u64) {
    let mut r = ctx.rng();
    let d = gen_input(&mut r, true);
    let s = Settings::gen(&mut r);
    let Ok(doc) = Deb822::from_str(&d.text) else {
        ctx.count("skipped:input-rejected");
        return;
    };
    let Some(p) = doc.paragraphs().next() else {
        ctx.count("skipped:no-paragraph");
        return;
    };
    let input = p.to_string();
    let in_model = vec![p.items().collect::<Vec<_>>()];
    FMT_LOG.with(|l| l.borrow_mut().clear());
    let res = guard(input.len() * 4 + 1024, || {
        let r1 = apply_para(&p, &s);
        let t1 = r1.to_string();
        let live = vec![r1.items().collect::<Vec<_>>()];
        let log = FMT_LOG.with(|l| l.borrow().clone());
        let r2 = apply_para(&r1, &s);
        (t1, live, log, r2.to_string())
    });
    ctx.count(&format!("cell:{}", s.cell()));
    let (t1, live, log, t2) = match res {
        Ok(x) => x,
        Err(f) => {
            fail(ctx, &f.class(), "paragraph", &s, &input, "", f.json());
            return;
        }
    };
    ctx.add("formatter-calls", log.len() as u64);
    if unrepresentable(&log) {
        ctx.count("skipped:formatter-output-has-hash-continuation");
        return;
    }
    if check_output(ctx, "paragraph", &s, &input, &t1, &live, &in_model, &log) && t1 != t2 {
        fail(ctx, "not-idempotent", "paragraph", &s, &input, &t1, json!({"second": clip(&t2)}));
    }
    ctx.nontrivial(format!("{}|{}", input, s.cell()).as_bytes());
    ctx.sample(|| json!({"input": clip(&input), "settings": s.json(), "output": clip(&t1)}));
}

fn doc_lane(ctx: &mut Ctx, idx: u64) {
    let mut r = ctx.rng();
    let d = gen_input(&mut r, false);
    let s = Settings::gen(&mut r);
    let Ok(doc) = Deb822::from_str(&d.text) else {
        ctx.count("skipped:input-rejected");
        return;
    };
    let wrap = idx % 4 != 0;
    let level = if wrap { "document" } else { "document-no-wrap" };
    let in_model: Vec<Vec<(String, String)>> = doc.paragraphs().map(|p| p.items().collect()).collect();
    FMT_LOG.with(|l| l.borrow_mut().clear());
    let s_eff = if wrap { s } else { Settings { formatter: 0, sort_entries: 0, ..s } };
    let run = |d: &Deb822| -> Deb822 {
        if wrap {
            apply_doc(d, &s)
        } else {
            let pc = para_cmp(s.sort_paras);
            let sp: Option<&dyn Fn(&Paragraph, &Paragraph) -> Ordering> = if s.sort_paras == 0 { None } else { Some(&pc) };
            d.wrap_and_sort(sp, None)
        }
    };
    let res = guard(d.text.len() * 4 + 1024, || {
        let r1 = run(&doc);
        let t1 = r1.to_string();
        let live: Vec<Vec<(String, String)>> = r1.paragraphs().map(|p| p.items().collect()).collect();
        let log = FMT_LOG.with(|l| l.borrow().clone());
        let r2 = run(&r1);
        (t1, live, log, r2.to_string())
    });
    ctx.count(&format!("cell:{}", s_eff.cell()));
    let (t1, live, log, t2) = match res {
        Ok(x) => x,
        Err(f) => {
            fail(ctx, &f.class(), level, &s_eff, &d.text, "", f.json());
            return;
        }
    };
    if unrepresentable(&log) {
        ctx.count("skipped:formatter-output-has-hash-continuation");
        return;
    }
    if check_output(ctx, level, &s_eff, &d.text, &t1, &live, &in_model, &log) && t1 != t2 {
        fail(ctx, "not-idempotent", level, &s_eff, &d.text, &t1, json!({"second": clip(&t2)}));
    }
    ctx.nontrivial(format!("{}|{}|{}", d.text, s_eff.cell(), wrap).as_bytes());
    ctx.sample(|| json!({"input": clip(&d.text), "settings": s_eff.json(), "wrap_paragraphs": wrap, "output": clip(&t1)}));
}

fn entry_lane(ctx: &mut Ctx, _idx: u64) {
    let mut r = ctx.rng();
    let mut s = Settings::gen(&mut r);
    s.sort_entries = 0;
    s.sort_paras = 0;
    let o = GOpts::default();
    let mut uniq = 0;
    let name = gen::gen_name(&mut r, &o);
    let mut lines = vec![gen::gen_line(&mut r, &o, &mut uniq, false)];
    for _ in 0..r.below(3) {
        lines.push(gen::gen_line(&mut r, &o, &mut uniq, true));
    }
    if r.chance(1, 3) {
        lines[0] = format!("{}, b{}, c", lines[0], uniq);
    }
    let value = lines.join("\n");
    FMT_LOG.with(|l| l.borrow_mut().clear());
    let res = guard(1024, || {
        let e = Entry::new(&name, &value);
        let fv: Option<&dyn Fn(&str, &str) -> String> = match s.formatter {
            0 => None,
            1 => Some(&fmt_identity),
            _ => Some(&fmt_comma),
        };
        let input = e.to_string();
        let r1 = e.wrap_and_sort(s.indent, s.iel, s.mll, fv);
        let t1 = r1.to_string();
        let live = vec![vec![(r1.key().unwrap_or_default(), r1.value())]];
        let log = FMT_LOG.with(|l| l.borrow().clone());
        let r2 = r1.wrap_and_sort(s.indent, s.iel, s.mll, fv);
        (input, t1, live, log, r2.to_string())
    });
    ctx.count(&format!("cell:{}", s.cell()));
    let (input, t1, live, log, t2) = match res {
        Ok(x) => x,
        Err(f) => {
            fail(ctx, &f.class(), "entry", &s, &format!("{}: {}", name, value), "", f.json());
            return;
        }
    };
    let in_model = vec![vec![(name.clone(), value.clone())]];
    if unrepresentable(&log) {
        ctx.count("skipped:formatter-output-has-hash-continuation");
        return;
    }
    if check_output(ctx, "entry", &s, &input, &t1, &live, &in_model, &log) && t1 != t2 {
        fail(ctx, "not-idempotent", "entry", &s, &input, &t1, json!({"second": clip(&t2)}));
    }
    ctx.nontrivial(format!("{}|{}", input, s.cell()).as_bytes());
    ctx.sample(|| json!({"input": clip(&input), "settings": s.json(), "output": clip(&t1)}));
}

// ---------------------------------------------------------------- control files

pub const REL_FIELDS_SRC: [&str; 3] = ["Build-Depends", "Build-Depends-Indep", "Build-Conflicts"];
pub const REL_FIELDS_BIN: [&str; 5] = ["Depends", "Recommends", "Suggests", "Pre-Depends", "Breaks"];

const ODD_OPERATORS: [&str; 5] = ["foo (< 1.0)", "foo (> 1.0), bar", "baz (1.0)", "a (== 1) | b", "zlib (<> 2), libc6 (>= 2.14)"];

pub fn gen_control(r: &mut Rng, substvars: bool) -> String {
    let ro = ROpts { ws_level: 1, substvars, epochs: false, negated_archs: false, multi_term_profiles: false, ..ROpts::default() };
    let mut t = String::new();
    let src_first = r.chance(3, 4);
    let mut paras: Vec<String> = vec![];
    let mut src = format!("Source: {}\n", r.pick_s(&relgen::NAMES));
    if r.chance(1, 2) {
        src.push_str("# about the maintainer\n");
    }
    src.push_str("Maintainer: Joe <joe@example.com>\n");
    if r.chance(1, 2) {
        src.push_str("Uploaders: Ann <a@e.org>,   Bob <b@e.org>,\n Cy <c@e.org>\n");
    }
    for f in REL_FIELDS_SRC {
        if r.chance(1, 12) {
            // not a relationship field by today's grammar (deprecated or mistyped operator), but an error-free deb822 field
            src.push_str(&format!("{}: {}\n", f, r.pick_s(&ODD_OPERATORS)));
            continue;
        }
        if r.chance(1, 2) {
            let g = relgen::gen_field(r, &ro);
            if g.text.trim().is_empty() {
                continue;
            }
            src.push_str(&format!("{}: {}\n", f, g.text.trim().replace('\n', "\n ")));
        }
    }
    if r.chance(1, 3) {
        src.push_str("Standards-Version: 4.6.2\n");
    }
    paras.push(src);
    for i in 0..r.below(4) {
        let mut b = String::new();
        if r.chance(1, 4) {
            b.push_str(&format!("# binary {}\n", i));
        }
        b.push_str(&format!("Package: {}\nArchitecture: any\n", r.pick_s(&["zlib", "foo", "bar-dev", "a1", "libx"])));
        for f in REL_FIELDS_BIN {
            if r.chance(1, 20) {
                b.push_str(&format!("{}: {}\n", f, r.pick_s(&ODD_OPERATORS)));
                continue;
            }
            if r.chance(1, 3) {
                let g = relgen::gen_field(r, &ro);
                if g.text.trim().is_empty() {
                    continue;
                }
                b.push_str(&format!("{}: {}\n", f, g.text.trim().replace('\n', "\n ")));
            }
        }
        if r.chance(1, 2) {
            b.push_str("Description: short\n long line one\n .\n long line two\n");
        }
        paras.push(b);
    }
    if !src_first && paras.len() > 1 {
        let s = paras.remove(0);
        let at = r.range(1, paras.len());
        paras.insert(at, s);
    }
    for (i, p) in paras.iter().enumerate() {
        if i > 0 {
            for _ in 0..r.range(1, 2) {
                t.push('\n');
            }
        }
        t.push_str(p);
    }
    t
}

thread_local! {
    static PER_PARA: std::cell::Cell<u64> = const { std::cell::Cell::new(0) };
}

fn control_lane(ctx: &mut Ctx, idx: u64) {
    use debian_control::lossless::Control;
    let mut r = ctx.rng();
    let substvars = idx % 8 == 0;
    let text = gen_control(&mut r, substvars);
    let mut s = Settings::gen(&mut r);
    s.sort_entries = 0;
    s.sort_paras = 0;
    s.formatter = 3;
    let level = "control";
    let shape = if substvars { "control+substvars" } else { "control" };
    // one case in four reformats paragraph by paragraph through the typed handles (Source::wrap_and_sort,
    // Binary::wrap_and_sort): the same per-paragraph result is demanded, in the order the handles were taken
    let per_para = idx % 4 == 1;
    let shape = if per_para { if substvars { "source+binary+substvars" } else { "source+binary" } } else { shape };
    let res = guard(text.len() * 8 + 4096, || {
        let mut c = Control::from_str(&text).map_err(|e| e.to_string())?;
        if per_para {
            PER_PARA.with(|c| c.set(c.get() + 1));
            let mut src = c.source();
            let mut bins: Vec<_> = c.binaries().collect();
            type Snap = Vec<(String, Vec<(String, String)>)>;
            let paras = |src: &Option<debian_control::lossless::Source>, bins: &Vec<debian_control::lossless::Binary>| -> Snap {
                src.iter().map(|x| x.as_deb822()).chain(bins.iter().map(|b| b.as_deb822())).map(|p| (p.to_string(), p.items().collect())).collect()
            };
            let join = |ps: &Snap| ps.iter().map(|p| p.0.clone()).collect::<Vec<_>>().join("\n");
            let before = paras(&src, &bins);
            let in_model: Vec<Vec<(String, String)>> = before.iter().map(|p| p.1.clone()).collect();
            let in_text = join(&before);
            let apply = |src: &mut Option<debian_control::lossless::Source>, bins: &mut Vec<debian_control::lossless::Binary>| {
                if let Some(x) = src.as_mut() {
                    x.wrap_and_sort(s.indent, s.iel, s.mll);
                }
                for b in bins.iter_mut() {
                    b.wrap_and_sort(s.indent, s.iel, s.mll);
                }
            };
            apply(&mut src, &mut bins);
            let after = paras(&src, &bins);
            let t1 = join(&after);
            let live: Vec<Vec<(String, String)>> = after.iter().map(|p| p.1.clone()).collect();
            apply(&mut src, &mut bins);
            let t2 = join(&paras(&src, &bins));
            return Ok::<_, String>((in_model, t1, live, t2, in_text));
        }
        let in_model: Vec<Vec<(String, String)>> = c.as_deb822().paragraphs().map(|p| p.items().collect()).collect();
        c.wrap_and_sort(s.indent, s.iel, s.mll);
        let t1 = c.as_deb822().to_string();
        let live: Vec<Vec<(String, String)>> = c.as_deb822().paragraphs().map(|p| p.items().collect()).collect();
        c.wrap_and_sort(s.indent, s.iel, s.mll);
        let t2 = c.as_deb822().to_string();
        Ok::<_, String>((in_model, t1, live, t2, text.clone()))
    });
    ctx.add("control:typed-paragraph-handles", PER_PARA.with(|c| c.replace(0)));
    let (in_model, t1, live, t2, text) = match res {
        Err(f) => {
            ctx.violation(&format!("{}|control|{}", f.class(), shape), json!({"input": clip(&text), "settings": s.json(), "failure": f.json()}));
            return;
        }
        Ok(Err(_)) => {
            ctx.count("skipped:input-rejected");
            return;
        }
        Ok(Ok(x)) => x,
    };
    let cfail = |ctx: &mut Ctx, kind: &str, info: Value| {
        ctx.violation(&format!("{}|control|{}", kind, shape), json!({"input": clip(&text), "settings": s.json(), "output": clip(&t1), "info": info}));
    };
    // strictly parseable + re-read == live
    let re = match Deb822::from_str(&t1) {
        Ok(d) => d.paragraphs().map(|p| p.items().collect::<Vec<_>>()).collect::<Vec<_>>(),
        Err(e) => {
            cfail(ctx, "output-not-parseable", json!({"error": e.to_string()}));
            return;
        }
    };
    if re != live {
        cfail(ctx, "reread-differs-from-live", json!({"reread": re, "live": live}));
        return;
    }
    // paragraph order: Source first, binaries by name; multiset of paragraphs by identity field preserved
    let ident = |p: &Vec<(String, String)>| -> (u8, String) {
        if let Some((_, v)) = p.iter().find(|(k, _)| k == "Source") {
            (0, v.clone())
        } else {
            (1, p.iter().find(|(k, _)| k == "Package").map(|(_, v)| v.clone()).unwrap_or_default())
        }
    };
    let mut want_order: Vec<(u8, String)> = in_model.iter().map(ident).collect();
    if !per_para {
        want_order.sort();
    }
    let got_order: Vec<(u8, String)> = re.iter().map(ident).collect();
    if want_order != got_order {
        cfail(ctx, "paragraph-order", json!({"expected": want_order, "got": got_order}));
        return;
    }
    // field-wise expectations (paragraphs matched through a stable sort of the input)
    let mut sorted_in = in_model.clone();
    if !per_para {
        sorted_in.sort_by_key(ident);
    }
    for (pin, pout) in sorted_in.iter().zip(re.iter()) {
        let kin: Vec<&String> = pin.iter().map(|f| &f.0).collect();
        let kout: Vec<&String> = pout.iter().map(|f| &f.0).collect();
        if kin != kout {
            cfail(ctx, "field-order-changed", json!({"expected": kin, "got": kout}));
            return;
        }
        for ((k, vin), (_, vout)) in pin.iter().zip(pout.iter()) {
            let is_rel = REL_FIELDS_SRC.contains(&k.as_str()) || REL_FIELDS_BIN.contains(&k.as_str());
            let want: Vec<String> = if is_rel {
                // differential: the crate's own relation normaliser on the same text (C13 checks that function)
                let rel = guard(vin.len() + 64, || {
                    let (rel, errs) = debian_control::lossless::relations::Relations::parse_relaxed(vin, true);
                    // a value the relation reader does not accept is kept as it is
                    if errs.is_empty() { Some(rel.wrap_and_sort().to_string()) } else { None }
                });
                match rel {
                    Ok(Some(t)) => norm_lines(&t),
                    Ok(None) => norm_lines(vin),
                    Err(_) => continue,
                }
            } else if k == "Uploaders" {
                vin.split(',').map(|x| x.trim().to_string()).filter(|x| !x.is_empty()).collect::<Vec<_>>().join(",\n").split('\n').map(|x| x.to_string()).collect()
            } else {
                norm_lines(vin)
            };
            if norm_lines(vout) != want {
                cfail(ctx, if is_rel { "relation-field-differs-from-normaliser" } else { "content-changed" }, json!({"field": k, "input_value": vin, "expected_lines": want, "got": vout}));
                return;
            }
        }
    }
    // comments preserved as whole lines
    for l in text.lines().filter(|l| l.starts_with('#')) {
        if !t1.lines().any(|o| o == l) {
            cfail(ctx, "comment-lost", json!({"comment": l}));
            return;
        }
    }
    // indentation + separation via the generic checker's rules
    let mut cur_name_len = 0usize;
    for l in model::scan(&t1) {
        let body = l.raw.strip_suffix('\n').unwrap_or(l.raw);
        match l.kind {
            model::LineKind::Field => cur_name_len = body.find(':').unwrap_or(0),
            model::LineKind::Cont => {
                let want = match s.indent {
                    Indentation::Spaces(n) => n as usize,
                    Indentation::FieldNameLength => cur_name_len,
                };
                let have = body.len() - body.trim_start_matches(' ').len();
                if have != want {
                    cfail(ctx, "wrong-indentation", json!({"line": body, "expected_spaces": want}));
                    return;
                }
            }
            _ => {}
        }
    }
    if t1.contains("\n\n\n") {
        cfail(ctx, "paragraph-separation", json!({}));
        return;
    }
    if t1 != t2 {
        cfail(ctx, "not-idempotent", json!({"second": clip(&t2)}));
        return;
    }
    let _ = level;
    ctx.count(&format!("cell:{}", s.cell()));
    ctx.nontrivial(format!("{}|{}", text, s.cell()).as_bytes());
    ctx.sample(|| json!({"input": clip(&text), "settings": s.json(), "output": clip(&t1)}));
}
