//! C04 — field edits act like list edits, touch nothing else, are visible
//! through earlier handles and survive a re-read.
//! C05 shares the state machine (`Hist`) defined here.
use crate::gen::{self, GOpts};
use crate::model;
use crate::rt::{clip, guard, Ctx, Lane, Rng};
use deb822_lossless::{Deb822, Paragraph};
use serde_json::{json, Value};
use std::str::FromStr;

pub fn lanes() -> Vec<Lane> {
    vec![
        Lane { name: "histories", count: |c| if c.thorough() { 1_000_000 } else { 150_000 }, run: hist_lane },
        Lane { name: "built", count: |c| if c.thorough() { 400_000 } else { 60_000 }, run: built_lane },
        Lane { name: "catalog", count: |c| CAT_DOCS.len() as u64 * if c.thorough() { 60 * 60 * 60 + 60 * 60 + 60 } else { 60 * 60 + 60 }, run: catalog_lane },
    ]
}

pub type Content = Vec<Vec<(String, String)>>;

#[derive(Clone, Debug)]
pub enum Op {
    Set { p: usize, name: String, value: String },
    Insert { p: usize, name: String, value: String },
    Remove { p: usize, name: String },
    Rename { p: usize, old: String, new: String },
    // paragraph-level (C05)
    AddPara,
    InsertPara { i: usize },
    RemovePara { i: usize },
}

impl Op {
    pub fn kind(&self) -> &'static str {
        match self {
            Op::Set { .. } => "set",
            Op::Insert { .. } => "insert",
            Op::Remove { .. } => "remove",
            Op::Rename { .. } => "rename",
            Op::AddPara => "add_paragraph",
            Op::InsertPara { .. } => "insert_paragraph",
            Op::RemovePara { .. } => "remove_paragraph",
        }
    }
    pub fn json(&self) -> Value {
        match self {
            Op::Set { p, name, value } => json!({"op":"set","para":p,"name":name,"value":value}),
            Op::Insert { p, name, value } => json!({"op":"insert","para":p,"name":name,"value":value}),
            Op::Remove { p, name } => json!({"op":"remove","para":p,"name":name}),
            Op::Rename { p, old, new } => json!({"op":"rename","para":p,"old":old,"new":new}),
            Op::AddPara => json!({"op":"add_paragraph"}),
            Op::InsertPara { i } => json!({"op":"insert_paragraph","index":i}),
            Op::RemovePara { i } => json!({"op":"remove_paragraph","index":i}),
        }
    }
}

/// The state machine: real document + list model + handles taken earlier.
pub struct Hist {
    pub doc: Deb822,
    pub model: Content,
    /// handles taken before the history started, with the model index they refer to
    /// (None once that paragraph was removed)
    pub early: Vec<(Paragraph, Option<usize>)>,
    pub log: Vec<Value>,
    pub start_text: String,
    pub start_feat: &'static str,
    /// shape of the operation being applied (for signatures)
    pub shape: String,
    /// per model paragraph: comment lines that were attached to it (inside it or
    /// directly in front of it) at some point; removing the paragraph may take them along
    pub attached: Vec<Vec<String>>,
}

fn live_content(d: &Deb822) -> Content {
    d.paragraphs().map(|p| p.items().collect()).collect()
}

fn nonempty(c: &Content) -> Content {
    c.iter().filter(|p| !p.is_empty()).cloned().collect()
}

/// Segments of well-formed text: (paragraph index, field ordinal in paragraph, raw) or free text
pub enum Seg {
    Field(usize, usize, String),
    Other(String),
}

pub fn segments(text: &str) -> Option<Vec<Seg>> {
    let mut out: Vec<Seg> = vec![];
    let mut para = 0usize;
    let mut ord = 0usize;
    let mut in_para = false;
    let mut in_field = false;
    for l in model::scan(text) {
        match l.kind {
            model::LineKind::Blank => {
                if in_para {
                    para += 1;
                    ord = 0;
                    in_para = false;
                }
                in_field = false;
                out.push(Seg::Other(l.raw.to_string()));
            }
            model::LineKind::Comment => {
                in_field = false;
                out.push(Seg::Other(l.raw.to_string()));
            }
            model::LineKind::Field => {
                out.push(Seg::Field(para, ord, l.raw.to_string()));
                ord += 1;
                in_para = true;
                in_field = true;
            }
            model::LineKind::Cont => {
                if !in_field {
                    return None;
                }
                if let Some(Seg::Field(_, _, raw)) = out.last_mut() {
                    raw.push_str(l.raw);
                }
            }
            model::LineKind::Other => return None,
        }
    }
    Some(out)
}

/// text without the fields (para, ordinal) listed in `drop`
pub fn remainder(segs: &[Seg], drop: &[(usize, usize)]) -> String {
    let mut s = String::new();
    for g in segs {
        match g {
            Seg::Field(p, o, raw) => {
                if !drop.contains(&(*p, *o)) {
                    s.push_str(raw);
                }
            }
            Seg::Other(raw) => s.push_str(raw),
        }
    }
    s
}

impl Hist {
    pub fn from_text(text: &str, feat: &'static str) -> Option<Hist> {
        let doc = Deb822::from_str(text).ok()?;
        let model = live_content(&doc);
        let early = doc.paragraphs().enumerate().map(|(i, p)| (p, Some(i))).collect();
        Some(Hist { doc, model, early, log: vec![], start_text: text.to_string(), start_feat: feat, shape: String::new(), attached: vec![] })
    }

    /// start from a live document that was not produced by the reader (e.g. the result of `wrap_and_sort`)
    pub fn from_doc(doc: Deb822, feat: &'static str) -> Option<Hist> {
        let text = doc.to_string();
        // the start state must itself be a well-formed document that reads back to what the object reports
        let re = Deb822::from_str(&text).ok()?;
        let model = live_content(&doc);
        if live_content(&re) != model {
            return None;
        }
        let early = doc.paragraphs().enumerate().map(|(i, p)| (p, Some(i))).collect();
        Some(Hist { doc, model, early, log: vec![], start_text: text, start_feat: feat, shape: String::new(), attached: vec![] })
    }

    /// remember which comments are attached to which (non-empty) model paragraph in `text`
    fn sync_attached(&mut self, text: &str) {
        self.attached.resize(self.model.len(), vec![]);
        let Some(segs) = segments(text) else { return };
        let (_, comments) = para_view(&segs);
        let text_to_model: Vec<usize> = self.model.iter().enumerate().filter(|(_, p)| !p.is_empty()).map(|(i, _)| i).collect();
        for (c, a) in comments {
            if let Some(t) = a {
                if let Some(&mi) = text_to_model.get(t) {
                    if !self.attached[mi].contains(&c) {
                        self.attached[mi].push(c);
                    }
                }
            }
        }
    }

    fn fail(&self, ctx: &mut Ctx, kind: &str, op: &Op, extra: Value) {
        let text = self.doc.to_string();
        ctx.violation(
            &format!("{}|{}|{}", kind, op.kind(), self.shape),
            json!({"start": clip(&self.start_text), "ops": self.log, "text_after": clip(&text), "model": self.model, "info": extra}),
        );
    }

    /// Apply one op to the real document and to the model, then check everything.
    /// Returns false when a violation was reported (history must stop).
    pub fn step(&mut self, ctx: &mut Ctx, op: &Op, use_early: bool) -> bool {
        self.log.push(op.json());
        let before = self.doc.to_string();
        let before_model = self.model.clone();
        self.shape = op_shape(&before, &before_model, op);
        if matches!(op, Op::Remove { .. }) {
            self.sync_attached(&before);
        }
        // ---- real object
        let doc = &mut self.doc;
        let early = &mut self.early;
        let res = guard(before.len() + 256, || -> Result<Option<bool>, String> {
            // the paragraph is addressed either through a handle taken before the
            // history started or through a fresh traversal of the document
            let mut fresh: Option<Paragraph> = None;
            let mut para = |doc: &Deb822, p: usize| -> Result<*mut Paragraph, String> {
                if use_early {
                    if let Some(k) = early.iter().position(|(_, i)| *i == Some(p)) {
                        return Ok(&mut early[k].0 as *mut Paragraph);
                    }
                }
                fresh = Some(doc.paragraphs().nth(p).ok_or_else(|| "no such paragraph".to_string())?);
                Ok(fresh.as_mut().unwrap() as *mut Paragraph)
            };
            match op {
                Op::Set { p, name, value } => {
                    let h = para(doc, *p)?;
                    unsafe { (*h).set(name, value) };
                    Ok(None)
                }
                Op::Insert { p, name, value } => {
                    let h = para(doc, *p)?;
                    unsafe { (*h).insert(name, value) };
                    Ok(None)
                }
                Op::Remove { p, name } => {
                    let h = para(doc, *p)?;
                    unsafe { (*h).remove(name) };
                    Ok(None)
                }
                Op::Rename { p, old, new } => {
                    let h = para(doc, *p)?;
                    Ok(Some(unsafe { (*h).rename(old, new) }))
                }
                Op::AddPara => {
                    let h = doc.add_paragraph();
                    early.push((h, None));
                    Ok(None)
                }
                Op::InsertPara { i } => {
                    let h = doc.insert_paragraph(*i);
                    early.push((h, None));
                    Ok(None)
                }
                Op::RemovePara { i } => {
                    doc.remove_paragraph(*i);
                    Ok(None)
                }
            }
        });
        // ---- model
        let mut touched_before: Vec<(usize, usize)> = vec![];
        let mut touched_after: Vec<(usize, usize)> = vec![];
        let mut want_ret: Option<bool> = None;
        let mut appended = false;
        let mut removed_attached: Vec<String> = vec![];
        match op {
            Op::Set { p, name, value } => {
                let para = &mut self.model[*p];
                match para.iter().position(|(k, _)| k == name) {
                    Some(i) => {
                        para[i].1 = value.clone();
                        touched_before.push((*p, i));
                        touched_after.push((*p, i));
                    }
                    None => {
                        para.push((name.clone(), value.clone()));
                        touched_after.push((*p, para.len() - 1));
                        appended = true;
                    }
                }
            }
            Op::Insert { p, name, value } => {
                let para = &mut self.model[*p];
                para.push((name.clone(), value.clone()));
                touched_after.push((*p, para.len() - 1));
                appended = true;
            }
            Op::Remove { p, name } => {
                let para = &mut self.model[*p];
                for (i, (k, _)) in para.iter().enumerate() {
                    if k == name {
                        touched_before.push((*p, i));
                    }
                }
                para.retain(|(k, _)| k != name);
            }
            Op::Rename { p, old, new } => {
                let para = &mut self.model[*p];
                match para.iter().position(|(k, _)| k == old) {
                    Some(i) => {
                        para[i].0 = new.clone();
                        touched_before.push((*p, i));
                        touched_after.push((*p, i));
                        want_ret = Some(true);
                    }
                    None => want_ret = Some(false),
                }
            }
            Op::AddPara => {
                self.sync_attached(&before);
                self.attached.push(vec![]);
                self.model.push(vec![]);
                if let Some(e) = self.early.last_mut() {
                    if e.1.is_none() && res.is_ok() {
                        e.1 = Some(self.model.len() - 1);
                    }
                }
            }
            Op::InsertPara { i } => {
                let at = (*i).min(self.model.len());
                self.sync_attached(&before);
                self.attached.insert(at, vec![]);
                self.model.insert(at, vec![]);
                let n = self.early.len();
                for (k, e) in self.early.iter_mut().enumerate() {
                    if let Some(j) = e.1 {
                        if j >= at {
                            e.1 = Some(j + 1);
                        }
                    } else if k + 1 == n && res.is_ok() {
                        // the handle just returned by insert_paragraph
                        e.1 = Some(at);
                    }
                }
            }
            Op::RemovePara { i } => {
                self.sync_attached(&before);
                if *i < self.model.len() {
                    removed_attached = self.attached.remove(*i);
                    self.model.remove(*i);
                    for e in self.early.iter_mut() {
                        match e.1 {
                            Some(j) if j == *i => e.1 = None,
                            Some(j) if j > *i => e.1 = Some(j - 1),
                            _ => {}
                        }
                    }
                }
            }
        }
        ctx.count(&format!("op:{}", op.kind()));
        let ret = match res {
            Err(f) => {
                self.fail(ctx, &f.class(), op, f.json());
                return false;
            }
            Ok(Err(e)) => {
                ctx.harness_error("operation addressed a missing paragraph", json!({"ops": self.log, "error": e}));
                return false;
            }
            Ok(Ok(r)) => r,
        };
        if ret != want_ret {
            self.fail(ctx, "return-value", op, json!({"returned": ret, "expected": want_ret}));
            return false;
        }
        // ---- (a) live content through a fresh traversal and through the early handles
        let live = match guard(before.len() + 256, || live_content(&self.doc)) {
            Ok(l) => l,
            Err(f) => {
                self.fail(ctx, &f.class(), op, f.json());
                return false;
            }
        };
        if live != self.model {
            self.fail(ctx, "live-mismatch", op, json!({"live": live}));
            return false;
        }
        ctx.count("checked:live");
        for (h, mi) in &self.early {
            if let Some(mi) = mi {
                let got = guard(before.len() + 256, || h.items().collect::<Vec<_>>());
                match got {
                    Ok(items) if items == self.model[*mi] => ctx.count("checked:early-handle"),
                    Ok(items) => {
                        self.fail(ctx, "early-handle-stale", op, json!({"handle_items": items, "paragraph": mi}));
                        return false;
                    }
                    Err(f) => {
                        self.fail(ctx, &f.class(), op, f.json());
                        return false;
                    }
                }
            }
        }
        // ---- (b) printed document re-reads to the model
        let after = self.doc.to_string();
        let re = guard(after.len(), || Deb822::from_str(&after).map(|d| live_content(&d)));
        match re {
            Err(f) => {
                self.fail(ctx, &f.class(), op, f.json());
                return false;
            }
            Ok(Err(e)) => {
                self.fail(ctx, "reparse-error", op, json!({"error": e.to_string()}));
                return false;
            }
            Ok(Ok(c)) => {
                if nonempty(&c) != nonempty(&self.model) {
                    self.fail(ctx, "reparse-mismatch", op, json!({"reparsed": c}));
                    return false;
                }
                ctx.count("checked:reparse");
            }
        }
        // ---- (c) locality (field-level ops on documents whose paragraphs all have text)
        if matches!(op, Op::Set { .. } | Op::Insert { .. } | Op::Remove { .. } | Op::Rename { .. }) {
            // paragraph indices of the text scanner skip empty paragraphs: map model index -> text index
            let tidx = |m: &Content, p: usize| m[..p].iter().filter(|x| !x.is_empty()).count();
            let (Some(sb), Some(sa)) = (segments(&before), segments(&after)) else {
                ctx.count("skipped:locality-not-scannable");
                return true;
            };
            let tb: Vec<(usize, usize)> = touched_before.iter().map(|(p, o)| (tidx(&before_model, *p), *o)).collect();
            let ta: Vec<(usize, usize)> = touched_after.iter().map(|(p, o)| (tidx(&self.model, *p), *o)).collect();
            let rb = remainder(&sb, &tb);
            let ra = remainder(&sa, &ta);
            let ok = rb == ra || (appended && !before.is_empty() && !before.ends_with('\n') && format!("{}\n", rb) == ra);
            if !ok {
                self.fail(ctx, "locality", op, json!({"text_before": clip(&before), "untouched_before": clip(&rb), "untouched_after": clip(&ra)}));
                return false;
            }
            ctx.count("checked:locality");
        } else {
            let (Some(sb), Some(sa)) = (segments(&before), segments(&after)) else {
                ctx.count("skipped:locality-not-scannable");
                return true;
            };
            let (pb, cb) = para_view(&sb);
            let (pa, ca) = para_view(&sa);
            let tidx = |m: &Content, p: usize| m[..p].iter().filter(|x| !x.is_empty()).count();
            let mut want_paras = pb.clone();
            let mut optional_comments: Vec<String> = vec![];
            if let Op::RemovePara { i } = op {
                if *i < before_model.len() && !before_model[*i].is_empty() {
                    let t = tidx(&before_model, *i);
                    want_paras.remove(t);
                    optional_comments = cb.iter().filter(|(_, a)| *a == Some(t)).map(|(c, _)| c.clone()).collect();
                }
                optional_comments.extend(removed_attached.iter().cloned());
            }
            // unterminated end: a supplied '\n' is tolerated
            let norm = |v: &Vec<String>| -> Vec<String> { v.iter().map(|x| x.strip_suffix('\n').unwrap_or(x).to_string()).collect() };
            if norm(&pa) != norm(&want_paras) {
                self.fail(ctx, "other-paragraph-changed", op, json!({"text_before": clip(&before), "paragraphs_before": pb, "paragraphs_after": pa}));
                return false;
            }
            // (a comment that was the unterminated last line when it was seen attached may have been terminated since)
            let optional: Vec<&str> = optional_comments.iter().map(|c| c.trim_end_matches('\n')).collect();
            let must: Vec<String> = cb.iter().map(|(c, _)| c.clone()).filter(|c| !optional.contains(&c.trim_end_matches('\n'))).collect();
            let got: Vec<String> = ca.iter().map(|(c, _)| c.clone()).filter(|c| !optional.contains(&c.trim_end_matches('\n'))).collect();
            if norm(&must) != norm(&got) {
                self.fail(ctx, "comment-lost-or-changed", op, json!({"text_before": clip(&before), "comments_before": must, "comments_after": got}));
                return false;
            }
            ctx.count("checked:paragraph-locality");
        }
        true
    }
}

/// (texts of the paragraphs without comments, comment lines with the paragraph they are attached to)
fn para_view(segs: &[Seg]) -> (Vec<String>, Vec<(String, Option<usize>)>) {
    let mut paras: Vec<String> = vec![];
    let mut comments: Vec<(String, Option<usize>)> = vec![];
    // comments not yet known to be attached (seen since the last blank line, before any field)
    let mut pending: Vec<usize> = vec![];
    let mut cur: Option<usize> = None;
    for g in segs {
        match g {
            Seg::Field(p, _, raw) => {
                if paras.len() <= *p {
                    paras.resize(*p + 1, String::new());
                }
                paras[*p].push_str(raw);
                cur = Some(*p);
                for k in pending.drain(..) {
                    comments[k].1 = Some(*p);
                }
            }
            Seg::Other(raw) => {
                if raw.starts_with('#') {
                    comments.push((raw.clone(), cur));
                    if cur.is_none() {
                        pending.push(comments.len() - 1);
                    }
                } else {
                    cur = None;
                    pending.clear();
                }
            }
        }
    }
    (paras, comments)
}

fn op_shape(before: &str, model: &Content, op: &Op) -> String {
    let unterminated = if !before.is_empty() && !before.ends_with('\n') { "+unterminated" } else { "" };
    match op {
        Op::AddPara | Op::InsertPara { .. } | Op::RemovePara { .. } => {
            let n = model.len();
            let i = match op {
                Op::InsertPara { i } | Op::RemovePara { i } => *i,
                _ => n,
            };
            let cls = if i == 0 { "index:0" } else if i + 1 == n { "index:last" } else if i == n { "index:len" } else if i > n { "index:beyond" } else { "index:middle" };
            let lead = match before.chars().next() {
                Some('#') => "+leading-comment",
                Some('\n') => "+leading-blank",
                _ => "",
            };
            format!("{}{}{}", cls, lead, unterminated)
        }
        _ => format!("{}{}", target_class(model, op), unterminated),
    }
}

pub const EXOTIC_NAMES: [&str; 8] = ["X-C#-Version", "a#", "Foo~", "~", "x;y", "9", "a-", "!#$%&'()*+,./<=>?@[\\]^_`{|}"];
pub const POOL: [&str; 7] = ["New", "X-A", "Depends", "b", "Source", "depends", "B"];

pub fn gen_value(r: &mut Rng, uniq: &mut u32) -> String {
    let o = GOpts::default();
    let n = r.range(1, 3);
    let mut lines = vec![gen::gen_line(r, &o, uniq, false)];
    for _ in 1..n {
        lines.push(gen::gen_line(r, &o, uniq, true));
    }
    lines.join("\n")
}

pub fn gen_field_op(r: &mut Rng, model: &Content, uniq: &mut u32) -> Option<Op> {
    let cands: Vec<usize> = (0..model.len()).collect();
    if cands.is_empty() {
        return None;
    }
    let p = *r.pick(&cands);
    let mut names: Vec<String> = model[p].iter().map(|(k, _)| k.clone()).collect();
    names.extend(POOL.iter().map(|s| s.to_string()));
    // "any valid field name": every printable ASCII character except ':' and blank may occur after the first one
    // ('#' and '-' only not in front), up to '~'
    if r.chance(1, 5) {
        names.push(r.pick_s(&EXOTIC_NAMES).to_string());
    }
    let name = r.pick(&names).clone();
    Some(match r.below(4) {
        0 => Op::Set { p, name, value: gen_value(r, uniq) },
        1 => Op::Insert { p, name, value: gen_value(r, uniq) },
        2 => Op::Remove { p, name },
        _ => Op::Rename { p, old: name, new: r.pick(&names).clone() },
    })
}

fn target_class(model: &Content, op: &Op) -> &'static str {
    let (p, name) = match op {
        Op::Set { p, name, .. } | Op::Insert { p, name, .. } | Op::Remove { p, name } => (*p, name),
        Op::Rename { p, old, .. } => (*p, old),
        _ => return "-",
    };
    let para = &model[p];
    let n = para.iter().filter(|(k, _)| k == name).count();
    match (n, para.iter().position(|(k, _)| k == name)) {
        (0, _) => "absent",
        (2.., _) => "duplicate",
        (_, Some(0)) if para.len() == 1 => "only",
        (_, Some(0)) => "first",
        (_, Some(i)) if i + 1 == para.len() => "last",
        _ => "middle",
    }
}

fn hist_lane(ctx: &mut Ctx, idx: u64) {
    let mut r = ctx.rng();
    let pool: Option<&'static [&'static str]> = if r.chance(1, 2) { Some(&POOL) } else { None };
    let d = gen::gen_doc(&mut r, &GOpts { name_pool: pool, ..GOpts::default() });
    let feat = super::c03::main_feature(&d.features);
    // one start document in five is the live result of a (content-preserving) wrap-and-sort, whose tree is laid
    // out differently from what the reader builds
    let start = if idx % 5 == 2 {
        ctx.count("start:wrap_and_sort-result");
        guard(d.text.len() + 64, || Deb822::from_str(&d.text).ok().map(|x| x.wrap_and_sort(None, None))).ok().flatten().and_then(|x| Hist::from_doc(x, feat))
    } else {
        Hist::from_text(&d.text, feat)
    };
    let Some(mut h) = start else {
        ctx.count("skipped:start-document-rejected");
        return;
    };
    if h.model != d.model() {
        ctx.count("skipped:start-document-misread");
        return;
    }
    let mut uniq = 1000;
    let nops = r.range(1, if ctx.thorough() { 12 } else { 6 });
    for _ in 0..nops {
        let Some(op) = gen_field_op(&mut r, &h.model, &mut uniq) else { break };
        ctx.count(&format!("target:{}:{}", op.kind(), target_class(&h.model, &op)));
        if !h.step(ctx, &op, r.chance(1, 2)) {
            break;
        }
    }
    ctx.count(&format!("start:{}", feat));
    ctx.nontrivial(format!("{}|{:?}", d.text, h.log).as_bytes());
    ctx.sample(|| json!({"start": clip(&d.text), "ops": h.log, "final_text": clip(&h.doc.to_string())}));
}

/// paragraphs built programmatically (FromIterator / From<Vec<..>> / new), standalone or collected into a document
fn built_lane(ctx: &mut Ctx, idx: u64) {
    let mut r = ctx.rng();
    let mut uniq = 0;
    let o = GOpts { name_pool: Some(&POOL), ..GOpts::default() };
    let np = r.range(1, 2);
    let model: Content = (0..np)
        .map(|_| (0..r.range(if np == 1 { 0 } else { 1 }, 3)).map(|_| (gen::gen_name(&mut r, &o), if r.chance(1, 8) { String::new() } else { gen_value(&mut r, &mut uniq) })).collect())
        .collect();
    let how = idx % 5;
    let build_para = |fields: &Vec<(String, String)>| -> Paragraph {
        match how {
            // read from text that lacks its final newline ("final newline optional"), then collected like the others
            4 if !fields.is_empty() => {
                let mut text = String::new();
                for (k, v) in fields {
                    let mut lines = v.split('\n');
                    let first = lines.next().unwrap_or("");
                    text.push_str(k);
                    text.push(':');
                    if !first.is_empty() {
                        text.push(' ');
                        text.push_str(first);
                    }
                    for l in lines {
                        text.push_str("\n ");
                        text.push_str(l);
                    }
                    text.push('\n');
                }
                text.pop();
                Paragraph::from_str(&text).expect("well-formed paragraph text")
            }
            4 => Paragraph::new(),
            0 => fields.iter().cloned().collect(),
            1 => fields.iter().map(|(k, v)| (k.as_str(), v.as_str())).collect(),
            2 => Paragraph::from(fields.clone()),
            _ => {
                let mut p = Paragraph::new();
                for (k, v) in fields {
                    p.insert(k, v);
                }
                p
            }
        }
    };
    let built = guard(1024, || {
        let doc: Deb822 = model.iter().map(build_para).collect();
        doc
    });
    let doc = match built {
        Ok(d) => d,
        Err(f) => {
            ctx.violation(&format!("{}|build|built:{}", f.class(), how), json!({"model": model, "failure": f.json()}));
            return;
        }
    };
    let early = doc.paragraphs().enumerate().map(|(i, p)| (p, Some(i))).collect();
    let start_text = doc.to_string();
    let feat = ["built:from_iter-string", "built:from_iter-str", "built:from-vec", "built:new+insert", "built:parsed-unterminated"][how as usize];
    let mut h = Hist { doc, model: model.clone(), early, log: vec![], start_text, start_feat: feat, shape: String::new(), attached: vec![] };
    // the built document must already report and re-read as the model
    if live_content(&h.doc) != model {
        ctx.violation(&format!("live-mismatch|build|{}", feat), json!({"model": model, "live": live_content(&h.doc)}));
        return;
    }
    let nops = r.range(1, 6);
    for _ in 0..nops {
        let Some(op) = gen_field_op(&mut r, &h.model, &mut uniq) else { break };
        if !h.step(ctx, &op, false) {
            break;
        }
    }
    ctx.count(&format!("start:{}", feat));
    ctx.nontrivial(format!("{:?}|{:?}", model, h.log).as_bytes());
    ctx.sample(|| json!({"built": feat, "model": model, "ops": h.log, "final_text": clip(&h.doc.to_string())}));
}

pub const CAT_DOCS: [&str; 6] = [
    "A: 1\n",
    "A: 1\nB: 2\n c\nA: 3\n",
    "# lead\n\nA: 1\n# mid\nB: 2\n\n# between\n\nC: 3\nB: 4\n",
    "A: 1\nB: 2",
    "A: 1\n\n\nB:\n 2\n# end\n",
    "\nA:1\n\tx\n\nB: 2\n\n",
];
const CAT_NAMES: [&str; 3] = ["A", "B", "N"];
const CAT_VALUES: [&str; 3] = ["v", "v1\nv2", "#h: x"];

fn cat_op(k: u64, nparas: usize) -> Op {
    let p = ((k / 30) as usize).min(nparas - 1);
    let k = k % 30;
    match k {
        0..=8 => Op::Set { p, name: CAT_NAMES[(k % 3) as usize].into(), value: CAT_VALUES[(k / 3) as usize].into() },
        9..=17 => Op::Insert { p, name: CAT_NAMES[((k - 9) % 3) as usize].into(), value: CAT_VALUES[((k - 9) / 3) as usize].into() },
        18..=20 => Op::Remove { p, name: CAT_NAMES[(k - 18) as usize].into() },
        _ => Op::Rename { p, old: CAT_NAMES[((k - 21) % 3) as usize].into(), new: CAT_NAMES[((k - 21) / 3) as usize].into() },
    }
}

fn catalog_lane(ctx: &mut Ctx, idx: u64) {
    let per_doc = if ctx.thorough() { 60 * 60 * 60 + 60 * 60 + 60 } else { 60 * 60 + 60 };
    let di = (idx / per_doc) as usize;
    let mut k = idx % per_doc;
    // decode history of length 1..3
    let mut ops_idx = vec![];
    let mut len = 1;
    let mut block = 60u64;
    while k >= block {
        k -= block;
        block *= 60;
        len += 1;
    }
    for _ in 0..len {
        ops_idx.push(k % 60);
        k /= 60;
    }
    let text = CAT_DOCS[di];
    let Some(mut h) = Hist::from_text(text, ["cat:one-field", "cat:dup-multiline", "cat:comments", "cat:unterminated", "cat:blank-runs", "cat:tab-indent"][di]) else {
        ctx.count("skipped:start-document-rejected");
        return;
    };
    let np = h.model.len();
    for (n, oi) in ops_idx.iter().enumerate() {
        let op = cat_op(*oi, np);
        if !h.step(ctx, &op, n % 2 == 0) {
            break;
        }
    }
    ctx.distinct_exact += 1;
    if idx % 7919 == 3 {
        ctx.sample(|| json!({"start": text, "ops": h.log, "final_text": h.doc.to_string()}));
    }
}
