//! C18 — typed field values round-trip through their text form; keywords
//! outside the defined sets are rejected.
use crate::gen;
use crate::rt::{guard, Ctx, Lane, Rng};
use serde_json::json;
use std::fmt::Debug;
use std::str::FromStr;

pub fn lanes() -> Vec<Lane> {
    vec![
        Lane { name: "enums", count: |_| 1, run: enums_lane },
        Lane { name: "reject-sweep", count: |c| gen::sweep_count(23, if c.thorough() { 4 } else { 3 }), run: reject_sweep },
        Lane { name: "records", count: |c| if c.thorough() { 1_000_000 } else { 200_000 }, run: records_lane },
        Lane { name: "vcs", count: |c| if c.thorough() { 300_000 } else { 20_000 }, run: vcs_lane },
        Lane { name: "dep3", count: |c| if c.thorough() { 300_000 } else { 20_000 }, run: dep3_lane },
        Lane { name: "misc", count: |c| if c.thorough() { 300_000 } else { 20_000 }, run: misc_lane },
    ]
}

/// parse(print(v)) == v and print(parse(print(v))) == print(v)
fn roundtrip<T: FromStr + PartialEq + Debug>(ctx: &mut Ctx, codec: &str, v: &T, print: impl Fn(&T) -> String, shape: &str)
where
    T::Err: Debug,
{
    let res = guard(4096, || {
        let text = print(v);
        let back = T::from_str(&text);
        let again = back.as_ref().ok().map(|b| print(b));
        (text, back, again)
    });
    ctx.count(&format!("codec:{}", codec));
    match res {
        Err(f) => ctx.violation(&format!("{}|{}|{}", f.class(), codec, shape), json!({"value": format!("{:?}", v), "failure": f.json()})),
        Ok((text, back, again)) => match back {
            Err(e) => ctx.violation(&format!("printed-form-rejected|{}|{}", codec, shape), json!({"value": format!("{:?}", v), "printed": text, "error": format!("{:?}", e)})),
            Ok(b) => {
                if &b != v {
                    ctx.violation(&format!("parse-of-print-unequal|{}|{}", codec, shape), json!({"value": format!("{:?}", v), "printed": text, "parsed": format!("{:?}", b)}));
                } else if again.as_deref() != Some(text.as_str()) {
                    ctx.violation(&format!("print-of-parse-differs|{}|{}", codec, shape), json!({"canonical": text, "reprinted": again}));
                }
            }
        },
    }
}

fn must_reject<T: FromStr + Debug>(ctx: &mut Ctx, codec: &str, s: &str, shape: &str) {
    let res = guard(s.len(), || T::from_str(s).is_ok());
    ctx.count("rejection-probes");
    match res {
        Err(f) => ctx.violation(&format!("{}|{}|reject:{}", f.class(), codec, shape), json!({"input": s, "failure": f.json()})),
        Ok(true) => ctx.violation(&format!("unknown-keyword-accepted|{}|reject:{}", codec, shape), json!({"input": s, "parsed": format!("{:?}", T::from_str(s).ok())})),
        Ok(false) => {}
    }
}

const PRIORITY: [&str; 5] = ["required", "important", "standard", "optional", "extra"];
const MULTIARCH: [&str; 4] = ["same", "foreign", "no", "allowed"];
const URGENCY: [&str; 5] = ["low", "medium", "high", "emergency", "critical"];
const VCONSTRAINT: [&str; 5] = ["<<", "<=", "=", ">=", ">>"];
const ORIGINCAT: [&str; 4] = ["backport", "vendor", "upstream", "other"];
const REPOTYPE: [&str; 2] = ["deb", "deb-src"];
const YNF: [&str; 3] = ["yes", "no", "force"];

fn all_keywords() -> Vec<&'static str> {
    let mut v: Vec<&str> = vec![];
    for k in [&PRIORITY[..], &MULTIARCH[..], &URGENCY[..], &VCONSTRAINT[..], &ORIGINCAT[..], &REPOTYPE[..], &YNF[..]] {
        v.extend(k.iter());
    }
    v.extend(["", "true", "false", "none", "default", "<", ">", "<>", "==", "=>", "udeb", "not-needed", "unknown"].iter());
    v
}

/// every probe derived from a keyword: itself, case variants, padded, suffixed
fn variants(k: &str) -> Vec<(String, &'static str)> {
    let mut v = vec![(k.to_string(), "other-enum-keyword")];
    if !k.is_empty() {
        v.push((k.to_uppercase(), "case-variant"));
        let mut c = k.chars();
        let f = c.next().unwrap();
        v.push((f.to_uppercase().collect::<String>() + c.as_str(), "case-variant"));
        v.push((format!(" {}", k), "padded"));
        v.push((format!("{} ", k), "padded"));
        v.push((format!("{}\n", k), "padded"));
        v.push((format!("{}x", k), "suffixed"));
    }
    v
}

fn reject_all(ctx: &mut Ctx, s: &str, shape: &'static str) {
    use debian_control::fields as f;
    let lower = s.to_lowercase();
    if !PRIORITY.contains(&s) {
        must_reject::<f::Priority>(ctx, "Priority", s, shape);
    }
    if !MULTIARCH.contains(&s) {
        must_reject::<f::MultiArch>(ctx, "MultiArch", s, shape);
    }
    // Urgency is documented case-insensitive: only strings outside the set in any case
    if !URGENCY.contains(&lower.as_str()) {
        must_reject::<f::Urgency>(ctx, "Urgency", s, shape);
    }
    if !VCONSTRAINT.contains(&s) {
        must_reject::<debian_control::relations::VersionConstraint>(ctx, "VersionConstraint", s, shape);
    }
    if !ORIGINCAT.contains(&s) {
        must_reject::<dep3::OriginCategory>(ctx, "OriginCategory", s, shape);
    }
    if !REPOTYPE.contains(&s) {
        must_reject::<apt_sources::RepositoryType>(ctx, "RepositoryType", s, shape);
    }
    if !YNF.contains(&s) {
        must_reject::<apt_sources::YesNoForce>(ctx, "YesNoForce", s, shape);
    }
}

fn enums_lane(ctx: &mut Ctx, _idx: u64) {
    use debian_control::fields as f;
    use debian_control::relations::VersionConstraint as VC;
    // exhaustive: every variant of every closed enumeration, both directions
    for v in [f::Priority::Required, f::Priority::Important, f::Priority::Standard, f::Priority::Optional, f::Priority::Extra] {
        roundtrip(ctx, "Priority", &v, |x| x.to_string(), "variant");
    }
    for v in [f::MultiArch::Same, f::MultiArch::Foreign, f::MultiArch::No, f::MultiArch::Allowed] {
        roundtrip(ctx, "MultiArch", &v, |x| x.to_string(), "variant");
    }
    for v in [f::Urgency::Low, f::Urgency::Medium, f::Urgency::High, f::Urgency::Emergency, f::Urgency::Critical] {
        roundtrip(ctx, "Urgency", &v, |x| x.to_string(), "variant");
    }
    for v in [VC::LessThan, VC::LessThanEqual, VC::Equal, VC::GreaterThanEqual, VC::GreaterThan] {
        roundtrip(ctx, "VersionConstraint", &v, |x| x.to_string(), "variant");
    }
    for v in [dep3::OriginCategory::Backport, dep3::OriginCategory::Vendor, dep3::OriginCategory::Upstream, dep3::OriginCategory::Other] {
        roundtrip(ctx, "OriginCategory", &v, |x| x.to_string(), "variant");
    }
    for v in [apt_sources::RepositoryType::Binary, apt_sources::RepositoryType::Source] {
        roundtrip(ctx, "RepositoryType", &v, |x| x.to_string(), "variant");
    }
    for v in [apt_sources::YesNoForce::Yes, apt_sources::YesNoForce::No, apt_sources::YesNoForce::Force] {
        roundtrip(ctx, "YesNoForce", &v, |x| (&x).to_string(), "variant");
    }
    // canonical text -> value -> text for every keyword (the table above is the documented set)
    macro_rules! canon {
        ($t:ty, $codec:expr, $set:expr, $print:expr) => {
            for k in $set {
                match <$t>::from_str(k) {
                    Ok(v) => {
                        let p: String = $print(&v);
                        if p != *k {
                            ctx.violation(&format!("print-of-parse-differs|{}|keyword", $codec), json!({"keyword": k, "printed": p}));
                        }
                    }
                    Err(_) => ctx.violation(&format!("keyword-rejected|{}|keyword", $codec), json!({"keyword": k})),
                }
                ctx.count("keywords");
            }
        };
    }
    canon!(f::Priority, "Priority", PRIORITY, |v: &f::Priority| v.to_string());
    canon!(f::MultiArch, "MultiArch", MULTIARCH, |v: &f::MultiArch| v.to_string());
    canon!(f::Urgency, "Urgency", URGENCY, |v: &f::Urgency| v.to_string());
    canon!(VC, "VersionConstraint", VCONSTRAINT, |v: &VC| v.to_string());
    canon!(dep3::OriginCategory, "OriginCategory", ORIGINCAT, |v: &dep3::OriginCategory| v.to_string());
    canon!(apt_sources::RepositoryType, "RepositoryType", REPOTYPE, |v: &apt_sources::RepositoryType| v.to_string());
    canon!(apt_sources::YesNoForce, "YesNoForce", YNF, |v: &apt_sources::YesNoForce| v.to_string());
    // rejection: every keyword of every other enumeration and its variants
    for k in all_keywords() {
        for (s, shape) in variants(k) {
            reject_all(ctx, &s, shape);
        }
    }
    ctx.distinct_exact += 28;
    ctx.sample(|| json!({"enumerations": 7, "variants": 28, "rejection_keywords": all_keywords().len()}));
}

fn reject_sweep(ctx: &mut Ctx, idx: u64) {
    let mut s = String::new();
    gen::sweep_string(&gen::REL_ALPHABET, idx, &mut s);
    reject_all(ctx, &s, "sweep");
    ctx.distinct_exact += 1;
    if idx % 5003 == 1 {
        ctx.sample(|| json!({"probe": s}));
    }
}

const TOKENS: [&str; 14] = [
    "d41d8cd98f00b204e9800998ecf8427e", "abc", "0", "foo_1.0-1_amd64.deb", "é漢", "a=b", "x:y", "#h", "-", "libs", "non-free/utils", "=", "UPPER", "q\u{1}r",
];
const SIZES: [usize; 6] = [0, 1, 42, 4294967295, 9223372036854775808, usize::MAX];

fn tok(r: &mut Rng) -> String {
    r.pick_s(&TOKENS).to_string()
}

fn records_lane(ctx: &mut Ctx, idx: u64) {
    use debian_control::fields as f;
    let mut r = ctx.rng();
    let size = *r.pick(&SIZES);
    match idx % 6 {
        0 => roundtrip(ctx, "Md5Checksum", &f::Md5Checksum { md5sum: tok(&mut r), size, filename: tok(&mut r) }, |x| x.to_string(), "record"),
        1 => roundtrip(ctx, "Sha1Checksum", &f::Sha1Checksum { sha1: tok(&mut r), size, filename: tok(&mut r) }, |x| x.to_string(), "record"),
        2 => roundtrip(ctx, "Sha256Checksum", &f::Sha256Checksum { sha256: tok(&mut r), size, filename: tok(&mut r) }, |x| x.to_string(), "record"),
        3 => roundtrip(ctx, "Sha512Checksum", &f::Sha512Checksum { sha512: tok(&mut r), size, filename: tok(&mut r) }, |x| x.to_string(), "record"),
        4 => {
            let prio = f::Priority::from_str(r.pick_s(&PRIORITY)).unwrap();
            let mut e = f::PackageListEntry::new(&tok(&mut r), &tok(&mut r), &tok(&mut r), prio);
            let nextra = r.below(4);
            for i in 0..nextra {
                // keys without '=' and blanks; values are arbitrary whitespace-free tokens (a value may contain '=')
                e.extra.insert(format!("{}{}", ["arch", "profile", "essential", "k"][i], if r.chance(1, 3) { "é" } else { "" }), ["any", "all", "yes", "v", "!stage1", "a=b", "x==", "=y"][r.below(8)].to_string());
            }
            // an unknown keyword in the priority position is rejected by the record too, not mapped to a default
            for bad in ["bogus", "Optional", "-", "unknown", ""] {
                let text = format!("{} {} {} {}", e.package, e.package_type, e.section, bad);
                let res = guard(256, || f::PackageListEntry::from_str(text.trim_end()).is_ok());
                ctx.count("record-reject-probes");
                if !matches!(res, Ok(false)) {
                    ctx.violation("unknown-keyword-accepted|PackageListEntry|priority", json!({"text": text, "result": format!("{:?}", res.map_err(|f| f.msg))}));
                    break;
                }
            }
            let shape = format!("extras:{}", nextra.min(2));
            // the printed order of the extras must not depend on the instance: print repeatedly
            roundtrip(ctx, "PackageListEntry", &e, |x| x.to_string(), &shape);
            if nextra >= 2 {
                let texts: Vec<String> = (0..8).map(|_| f::PackageListEntry::from_str(&e.to_string()).map(|b| b.to_string()).unwrap_or_default()).collect();
                if texts.iter().any(|t| *t != texts[0]) {
                    ctx.violation(&format!("print-not-deterministic|PackageListEntry|{}", shape), json!({"value": format!("{:?}", e), "prints": texts}));
                }
            }
        }
        _ => {
            let prio = f::Priority::from_str(r.pick_s(&PRIORITY)).unwrap();
            let v = debian_control::lossless::changes::File { md5sum: tok(&mut r), size, section: tok(&mut r), priority: prio, filename: tok(&mut r) };
            roundtrip(ctx, "changes::File", &v, |x| x.to_string(), "record");
            for bad in ["bogus", "Optional", "unknown"] {
                let text = format!("{} {} {} {} {}", v.md5sum, v.size, v.section, bad, v.filename);
                let res = guard(256, || debian_control::lossless::changes::File::from_str(&text).is_ok());
                ctx.count("record-reject-probes");
                if !matches!(res, Ok(false)) {
                    ctx.violation("unknown-keyword-accepted|changes::File|priority", json!({"text": text, "result": format!("{:?}", res.map_err(|f| f.msg))}));
                    break;
                }
            }
        }
    }
    ctx.nontrivial(format!("{}|{}", idx % 6, r.next()).as_bytes());
    let cn = ["Md5Checksum", "Sha1Checksum", "Sha256Checksum", "Sha512Checksum", "PackageListEntry", "changes::File"][(idx % 6) as usize];
    ctx.sample(|| json!({"codec": cn, "size": size}));
}

const URLS: [&str; 6] = ["https://salsa.debian.org/x/y.git", "git://example.org/~user/r", "lp:foo", "https://e.org/a%20b", ":pserver:anonymous@example.org:/cvs", "svn+ssh://host/path/é"];
const BRANCHES: [&str; 5] = ["main", "debian/sid", "feature-1.0", "é", "-b"];
const SUBPATHS: [&str; 4] = ["sub/dir", "x", "debian", "a-b_c.d"];

fn vcs_lane(ctx: &mut Ctx, idx: u64) {
    use debian_control::vcs::{ParsedVcs, Vcs};
    let mut r = ctx.rng();
    let url = r.pick_s(&URLS).to_string();
    let branch = if idx % 2 == 1 { Some(r.pick_s(&BRANCHES).to_string()) } else { None };
    let subpath = if (idx / 2) % 2 == 1 { Some(r.pick_s(&SUBPATHS).to_string()) } else { None };
    let shape = format!("branch:{},subpath:{}", branch.is_some() as u8, subpath.is_some() as u8);
    let p = ParsedVcs { repo_url: url.clone(), branch: branch.clone(), subpath: subpath.clone() };
    roundtrip(ctx, "ParsedVcs", &p, |x| x.to_string(), &shape);
    // Vcs::from_field(to_field(v)) (Vcs has no PartialEq: compared through Debug and to_field)
    let vs: Vec<Vcs> = vec![
        Vcs::Git { repo_url: url.clone(), branch: branch.clone(), subpath: subpath.clone() },
        Vcs::Bzr { repo_url: url.clone(), subpath: subpath.clone() },
        Vcs::Hg { repo_url: url.clone() },
        Vcs::Svn { url: url.clone() },
        Vcs::Cvs { root: url.clone(), module: subpath.clone() },
    ];
    for v in vs {
        let res = guard(1024, || {
            let (name, value) = v.to_field();
            let back = Vcs::from_field(name, &value);
            (name.to_string(), value, back)
        });
        ctx.count("codec:Vcs");
        match res {
            Err(f) => ctx.violation(&format!("{}|Vcs::from_field|{}", f.class(), shape), json!({"value": format!("{:?}", v), "failure": f.json()})),
            Ok((name, value, Err(e))) => ctx.violation(&format!("printed-form-rejected|Vcs::from_field({})|{}", name, shape), json!({"value": format!("{:?}", v), "field": value, "error": e})),
            Ok((name, value, Ok(b))) => {
                if format!("{:?}", b) != format!("{:?}", v) {
                    ctx.violation(&format!("parse-of-print-unequal|Vcs::from_field({})|{}", name, shape), json!({"value": format!("{:?}", v), "field": value, "parsed": format!("{:?}", b)}));
                } else if b.to_field().1 != value {
                    ctx.violation(&format!("print-of-parse-differs|Vcs::to_field({})|{}", name, shape), json!({"field": value, "reprinted": b.to_field().1}));
                }
            }
        }
    }
    ctx.nontrivial(format!("{}|{:?}|{:?}", url, branch, subpath).as_bytes());
    ctx.sample(|| json!({"value": p.to_string()}));
}

const FREE: [&str; 11] = [
    "https://lists.example.com/1234.html", "yes", "http://bugs.debian.org/1", "abc123", "2.0", "é text with blanks", "Commit:abc", "nope",
    "https://example.org/fix.patch, adapted for 1.2", "0123abcd, 4567ef01", "a,b , c",
];

fn dep3_lane(ctx: &mut Ctx, idx: u64) {
    use dep3::{AppliedUpstream, Forwarded, Origin, OriginCategory};
    let mut r = ctx.rng();
    let s = r.pick_s(&FREE).to_string();
    match idx % 4 {
        0 => {
            for v in [Forwarded::No, Forwarded::NotNeeded, Forwarded::Yes(s.clone())] {
                roundtrip(ctx, "Forwarded", &v, |x| x.to_string(), "value");
            }
        }
        1 => {
            for v in [Origin::Commit(s.clone()), Origin::Other(s.clone())] {
                roundtrip(ctx, "Origin", &v, |x| x.to_string(), "value");
            }
        }
        2 => {
            for v in [AppliedUpstream::Commit(s.clone()), AppliedUpstream::Other(s.clone())] {
                roundtrip(ctx, "AppliedUpstream", &v, |x| x.to_string(), "value");
            }
        }
        _ => {
            // origin with its category prefix, through the DEP-3 header (the prefix codec is crate-private)
            let cat = [None, Some(OriginCategory::Backport), Some(OriginCategory::Vendor), Some(OriginCategory::Upstream), Some(OriginCategory::Other)][r.below(5)];
            let origin = if r.chance(1, 2) { Origin::Commit(s.clone()) } else { Origin::Other(s.clone()) };
            let h = dep3::lossy::PatchHeader {
                origin: Some((cat, origin.clone())),
                forwarded: None,
                author: None,
                reviewed_by: None,
                bug_debian: None,
                last_update: None,
                applied_upstream: None,
                bug: None,
                description: None,
            };
            let shape = format!("category:{}", cat.map(|c| c.to_string()).unwrap_or("none".into()));
            roundtrip(ctx, "PatchHeader.origin", &h, |x| x.to_string(), &shape);
            // the lossless accessor reads the same
            let res = guard(1024, || dep3::lossless::PatchHeader::from_str(&h.to_string()).map(|l| l.origin()));
            match res {
                Ok(Ok(Some((c, o)))) if c == cat && o == origin => {}
                other => ctx.violation(&format!("lossless-reads-differently|lossless::PatchHeader::origin|{}", shape), json!({"printed": h.to_string(), "got": format!("{:?}", other.map(|x| x.map_err(|e| e.to_string())))})),
            }
        }
    }
    if idx % 4 == 3 {
        // text direction: an Origin that is only a category keyword, or keyword + location, prints back as written
        for text in ["vendor", "upstream", "backport", "other", "vendor, https://bugs.debian.org/1", "commit:abc123"] {
            let doc = format!("Origin: {}\n", text);
            let res = guard(1024, || {
                let lossy = dep3::lossy::PatchHeader::from_str(&doc).map(|h| h.to_string());
                let lossless = dep3::lossless::PatchHeader::from_str(&doc).map_err(|e| e.to_string()).map(|mut h| {
                    if let Some((c, o)) = h.origin() {
                        h.set_origin(c, o);
                    }
                    h.to_string()
                });
                (lossy, lossless)
            });
            ctx.count("origin-texts");
            match res {
                Ok((Ok(a), Ok(b))) if a == doc && b == doc => {}
                other => {
                    ctx.violation(&format!("text-not-printed-back|PatchHeader.origin|{}", if text.contains(' ') || text.contains(':') { "keyword+location" } else { "bare-keyword" }), json!({"text": doc, "got": format!("{:?}", other.map_err(|f| f.msg))}));
                    break;
                }
            }
        }
    }
    ctx.nontrivial(format!("{}|{}", idx % 4, s).as_bytes());
    let cn = ["Forwarded", "Origin", "AppliedUpstream", "Origin with category"][(idx % 4) as usize];
    ctx.sample(|| json!({"text": s, "codec": cn}));
}

fn misc_lane(ctx: &mut Ctx, idx: u64) {
    use apt_sources::signature::Signature;
    use debian_control::relations::BuildProfile;
    use debian_copyright::License;
    let mut r = ctx.rng();
    let name = ["GPL-2+", "MIT", "Apache-2.0 or x", "é"][r.below(4)].to_string();
    let text = ["line one", "first\n .\n second", " indented\nnext", "é漢\n"][r.below(4)].to_string();
    match idx % 3 {
        0 => {
            for v in [License::Name(name.clone()), License::Text(text.clone()), License::Named(name.clone(), text.clone())] {
                roundtrip(ctx, "License", &v, |x| x.to_string(), match &v { License::Name(_) => "name", License::Text(_) => "text", _ => "named" });
            }
        }
        1 => {
            let path = ["/usr/share/keyrings/x.gpg", "relative/key.asc", "/etc/apt/é.gpg"][r.below(3)];
            roundtrip(ctx, "Signature", &Signature::KeyPath(path.into()), |x| x.to_string(), "key-path");
            let block = ["-----BEGIN PGP PUBLIC KEY BLOCK-----\n.\nmDMEY865UxYJ\n=5NZE\n-----END PGP PUBLIC KEY BLOCK-----", "one-line-block", "a\nb", "\n-----BEGIN PGP PUBLIC KEY BLOCK-----\nmDME\n-----END PGP PUBLIC KEY BLOCK-----", "\tindented first line\nsecond line", "  Comment: leading blanks\nx"][r.below(6)];
            roundtrip(ctx, "Signature", &Signature::KeyBlock(block.to_string()), |x| x.to_string(), "key-block");
        }
        _ => {
            let p = r.pick_s(&crate::relgen::PROFILES).to_string();
            for v in [BuildProfile::Enabled(p.clone()), BuildProfile::Disabled(p.clone())] {
                roundtrip(ctx, "BuildProfile", &v, |x| x.to_string(), "value");
            }
        }
    }
    ctx.nontrivial(format!("{}|{}|{}", idx % 3, name, text).as_bytes());
    let cn = ["License", "Signature", "BuildProfile"][(idx % 3) as usize];
    ctx.sample(|| json!({"codec": cn}));
}
