//! C15 — typed accessors: what a setter writes its getter reads, in exactly
//! one field with the documented Debian name; nothing else moves; getters
//! return the documented reading of raw field text.
use super::c04::{remainder, segments, Seg};
use crate::rt::{clip, guard, Ctx, Lane, Rng};
use deb822_lossless::Deb822;
use debian_control::fields::{Md5Checksum, MultiArch, Priority, Sha1Checksum, Sha256Checksum, Sha512Checksum};
use debian_control::lossless::relations::Relations;
use debian_control::lossless::{apt, buildinfo::Buildinfo, control};
use serde_json::json;
use std::str::FromStr;

pub fn lanes() -> Vec<Lane> {
    vec![
        Lane { name: "set-get", count: |c| rows().len() as u64 * 7 * if c.thorough() { 300 } else { 40 }, run: setget_lane },
        Lane { name: "sequences", count: |c| if c.thorough() { 400_000 } else { 50_000 }, run: sequences_lane },
        Lane { name: "read-side", count: |_| reads().len() as u64, run: read_lane },
        Lane { name: "selection", count: |c| if c.thorough() { 100_000 } else { 8_000 }, run: selection_lane },
    ]
}

/// what one setter call did: (expected reading, reading after the call, field is cleared)
type SetGet = fn(&Deb822, &mut Rng) -> (String, String, bool);
type Get = fn(&Deb822) -> String;

pub struct Row {
    pub view: &'static str,
    pub name: &'static str,
    pub field: &'static str,
    /// base paragraphs the view needs (the view's paragraph is the last one)
    pub base: &'static str,
    /// a valid raw value the field may hold before the setter runs
    pub old: &'static str,
    pub setget: SetGet,
    pub get: Get,
}

// ---- views: all are handles into the shared mutable tree of `doc`
fn last_para(d: &Deb822) -> deb822_lossless::Paragraph {
    d.paragraphs().last().expect("view paragraph")
}
fn v_csrc(d: &Deb822) -> control::Source {
    control::Source::from(last_para(d))
}
fn v_cbin(d: &Deb822) -> control::Binary {
    control::Binary::from(last_para(d))
}
fn v_asrc(d: &Deb822) -> apt::Source {
    apt::Source::from(last_para(d))
}
fn v_apkg(d: &Deb822) -> apt::Package {
    apt::Package::new(last_para(d))
}
fn v_arel(d: &Deb822) -> apt::Release {
    apt::Release::new(last_para(d))
}
fn v_binfo(d: &Deb822) -> Buildinfo {
    Buildinfo::from(last_para(d))
}

// ---- value generators (each returns the value and its display)
const WORDS: [&str; 8] = ["foo", "libs", "non-free/utils", "2.0-1", "Joe Example <joe@example.com>", "é漢 x", "a:b #c", "https://e.org/x.git -b main"];
fn g_str(r: &mut Rng) -> String {
    r.pick_s(&WORDS).to_string()
}
fn g_multi(r: &mut Rng) -> String {
    ["short", "short\nlong one\n.\nlong two", "x\ny"][r.below(3)].to_string()
}
fn g_rel(r: &mut Rng) -> Relations {
    Relations::from_str(["libc6 (>= 2.14), libgcc1", "a | b (<< 1:2.0~rc1), c [amd64 !i386] <!nocheck>", "debhelper-compat (= 13)", "x"][r.below(4)]).unwrap()
}
/// relation values as they occur in debian/control: substitution variables are part of nearly every binary paragraph
fn g_rel_sv(r: &mut Rng) -> Relations {
    if r.chance(1, 2) {
        return g_rel(r);
    }
    let (rel, errs) = Relations::parse_relaxed(["${misc:Depends}, bar (>= 1.0)", "${shlibs:Depends}, ${misc:Depends}", "a | b, ${x:Y}"][r.below(3)], true);
    assert!(errs.is_empty());
    rel
}
fn g_prio(r: &mut Rng) -> Priority {
    [Priority::Required, Priority::Important, Priority::Standard, Priority::Optional, Priority::Extra][r.below(5)].clone()
}
fn g_ma(r: &mut Rng) -> MultiArch {
    match r.below(4) { 0 => MultiArch::Same, 1 => MultiArch::Foreign, 2 => MultiArch::No, _ => MultiArch::Allowed }
}
fn g_url(r: &mut Rng) -> url::Url {
    url::Url::parse(["https://example.com/", "http://bugs.debian.org/510219", "https://salsa.debian.org/x/y?q=1#f"][r.below(3)]).unwrap()
}
fn g_ver(r: &mut Rng) -> debversion::Version {
    ["1.0-1", "2:1.2.3~rc1-1+b2", "0.9"][r.below(3)].parse().unwrap()
}
fn g_usize(r: &mut Rng) -> usize {
    [0usize, 1, 3524, 4294967295, usize::MAX][r.below(5)]
}
fn g_list(r: &mut Rng) -> Vec<String> {
    (0..r.range(1, 3)).map(|i| ["main", "contrib", "amd64", "x-y.z"][(i + r.below(4)) % 4].to_string()).collect()
}
fn g_people(r: &mut Rng) -> Vec<String> {
    (0..r.range(1, 3)).map(|i| format!("Person {} <p{}@e.org>", i, r.below(9))).collect()
}
fn g_date(r: &mut Rng) -> chrono::DateTime<chrono::FixedOffset> {
    chrono::DateTime::parse_from_rfc2822(["Thu, 23 Apr 2020 17:19:19 +0000", "Mon, 01 Jan 2024 00:00:00 +0200", "Sat, 29 Feb 2020 23:59:59 -0830"][r.below(3)]).unwrap()
}
macro_rules! g_sums {
    ($name:ident, $ty:ident, $hash:ident) => {
        fn $name(r: &mut Rng) -> Vec<$ty> {
            (0..r.below(4)).map(|i| $ty { $hash: format!("d41d8cd98f00b204e98{}", i), size: g_usize(r), filename: format!("f_{}.deb", i) }).collect()
        }
    };
}
g_sums!(g_md5, Md5Checksum, md5sum);
g_sums!(g_sha1, Sha1Checksum, sha1);
g_sums!(g_sha256, Sha256Checksum, sha256);
g_sums!(g_sha512, Sha512Checksum, sha512);

fn d<T: std::fmt::Debug>(x: &T) -> String {
    format!("{:?}", x)
}
fn ds(x: &Option<Relations>) -> String {
    format!("{:?}", x.as_ref().map(|r| r.to_string()))
}

/// row!(view-fn, "View", getter, setter, "Field", base, old, |r| value-expr => arg-expr, display-of-expected, display-of-getter)
macro_rules! row {
    ($v:ident, $view:expr, $get:ident, $set:ident, $field:expr, $old:expr, $gen:expr, |$val:ident| $arg:expr, |$val2:ident| $exp:expr, |$g:ident| $got:expr) => {
        Row {
            view: $view,
            name: stringify!($get),
            field: $field,
            base: base_of($view),
            old: $old,
            setget: |doc, r| {
                let mut view = $v(doc);
                let $val = $gen(r);
                let $val2 = &$val;
                let expected: String = $exp;
                view.$set($arg);
                let $g = view.$get();
                (expected, $got, false)
            },
            get: |doc| {
                let view = $v(doc);
                let $g = view.$get();
                $got
            },
        }
    };
}

/// setter(&str), getter Option<String>
macro_rules! r_str {
    ($v:ident, $view:expr, $get:ident, $set:ident, $field:expr) => {
        row!($v, $view, $get, $set, $field, "old value", g_str, |x| x.as_str(), |x| d(&Some(x.clone())), |g| d(&g))
    };
}
/// setter(Relations by value), getter Option<Relations>
macro_rules! r_rel {
    ($v:ident, $view:expr, $get:ident, $set:ident, $field:expr) => {
        row!($v, $view, $get, $set, $field, "old (>= 1)", g_rel, |x| Relations::parse_relaxed(&x.to_string(), true).0, |x| d(&Some(x.to_string())), |g| ds(&g))
    };
}
/// setter(Option<&Relations>), getter Option<Relations> — Some and None forms
macro_rules! r_orel {
    ($v:ident, $view:expr, $get:ident, $set:ident, $field:expr) => {
        Row {
            view: $view,
            name: stringify!($get),
            field: $field,
            base: base_of($view),
            old: "old (>= 1)",
            setget: |doc, r| {
                let mut view = $v(doc);
                if r.chance(1, 4) {
                    view.$set(None);
                    ("None".to_string(), ds(&view.$get()), true)
                } else {
                    let x = g_rel_sv(r);
                    view.$set(Some(&x));
                    (d(&Some(x.to_string())), ds(&view.$get()), false)
                }
            },
            get: |doc| ds(&$v(doc).$get()),
        }
    };
}
/// setter(Option<T>) with clearing, getter Option<T> (Debug)
macro_rules! r_opt {
    ($v:ident, $view:expr, $get:ident, $set:ident, $field:expr, $old:expr, $gen:expr, |$x:ident| $arg:expr) => {
        Row {
            view: $view,
            name: stringify!($get),
            field: $field,
            base: base_of($view),
            old: $old,
            setget: |doc, r| {
                let mut view = $v(doc);
                if r.chance(1, 4) {
                    view.$set(None);
                    ("None".to_string(), d(&view.$get()), true)
                } else {
                    let $x = $gen(r);
                    let exp = d(&Some(&$x));
                    view.$set(Some($arg));
                    (exp, d(&view.$get()), false)
                }
            },
            get: |doc| d(&$v(doc).$get()),
        }
    };
}
/// setter(T by value), getter Option<T> (Debug equality)
macro_rules! r_val {
    ($v:ident, $view:expr, $get:ident, $set:ident, $field:expr, $old:expr, $gen:expr) => {
        row!($v, $view, $get, $set, $field, $old, $gen, |x| x.clone(), |x| d(&Some(x)), |g| d(&g))
    };
}
/// setter(Vec<T>), getter Vec<T>
macro_rules! r_vec {
    ($v:ident, $view:expr, $get:ident, $set:ident, $field:expr, $old:expr, $gen:expr) => {
        row!($v, $view, $get, $set, $field, $old, $gen, |x| x.clone(), |x| d(x), |g| d(&g))
    };
}
/// setter(Vec<String>), getter Option<Vec<String>>
macro_rules! r_ovec {
    ($v:ident, $view:expr, $get:ident, $set:ident, $field:expr, $old:expr, $gen:expr) => {
        row!($v, $view, $get, $set, $field, $old, $gen, |x| x.clone(), |x| d(&Some(x)), |g| d(&g))
    };
}
/// setter(bool), getter bool
macro_rules! r_bool {
    ($v:ident, $view:expr, $get:ident, $set:ident, $field:expr) => {
        row!($v, $view, $get, $set, $field, "yes", |r: &mut Rng| r.chance(1, 2), |x| *x, |x| d(x), |g| d(&g))
    };
}

fn base_of(view: &str) -> &'static str {
    match view {
        "control::Source" => "Source: foo\n",
        "control::Binary" => "Source: foo\nMaintainer: M <m@e.org>\n\nPackage: bar\n",
        "apt::Source" => "Package: cvsd\n",
        "apt::Package" => "Package: apt\n",
        "apt::Release" => "Origin: Debian\n",
        "Buildinfo" => "Format: 1.0\n",
        "copyright::Header" => "Format: https://www.debian.org/doc/packaging-manuals/copyright-format/1.0/\n",
        "copyright::FilesParagraph" => "Format: https://www.debian.org/doc/packaging-manuals/copyright-format/1.0/\n\nFiles: *\n",
        "dep3::PatchHeader" => "Bug: https://e.org/1\n",
        _ => "",
    }
}

const SUMS_OLD: &str = "\n abc 1 old.deb";
const DATE_OLD: &str = "Thu, 01 Jan 1970 00:00:00 +0000";

pub fn rows() -> Vec<Row> {
    let mut v: Vec<Row> = vec![
        // ---- control::Source
        r_str!(v_csrc, "control::Source", name, set_name, "Source"),
        r_opt!(v_csrc, "control::Source", section, set_section, "Section", "old", g_str, |x| x.as_str()),
        r_opt!(v_csrc, "control::Source", priority, set_priority, "Priority", "extra", g_prio, |x| x),
        r_str!(v_csrc, "control::Source", maintainer, set_maintainer, "Maintainer"),
        row!(v_csrc, "control::Source", build_depends, set_build_depends, "Build-Depends", "old (>= 1)", g_rel_sv, |x| &x, |x| d(&Some(x.to_string())), |g| ds(&g)),
        r_str!(v_csrc, "control::Source", standards_version, set_standards_version, "Standards-Version"),
        row!(v_csrc, "control::Source", homepage, set_homepage, "Homepage", "https://old.example/", g_url, |x| &x, |x| d(&Some(x)), |g| d(&g)),
        r_str!(v_csrc, "control::Source", vcs_git, set_vcs_git, "Vcs-Git"),
        r_str!(v_csrc, "control::Source", vcs_svn, set_vcs_svn, "Vcs-Svn"),
        r_str!(v_csrc, "control::Source", vcs_bzr, set_vcs_bzr, "Vcs-Bzr"),
        r_str!(v_csrc, "control::Source", vcs_arch, set_vcs_arch, "Vcs-Arch"),
        r_str!(v_csrc, "control::Source", vcs_svk, set_vcs_svk, "Vcs-Svk"),
        r_str!(v_csrc, "control::Source", vcs_darcs, set_vcs_darcs, "Vcs-Darcs"),
        r_str!(v_csrc, "control::Source", vcs_mtn, set_vcs_mtn, "Vcs-Mtn"),
        r_str!(v_csrc, "control::Source", vcs_cvs, set_vcs_cvs, "Vcs-Cvs"),
        r_str!(v_csrc, "control::Source", vcs_hg, set_vcs_hg, "Vcs-Hg"),
        r_opt!(v_csrc, "control::Source", vcs_browser, set_vcs_browser, "Vcs-Browser", "https://old.example/", g_str, |x| x.as_str()),
        row!(v_csrc, "control::Source", uploaders, set_uploaders, "Uploaders", "Old <o@e.org>", g_people, |x| &x.iter().map(|s| s.as_str()).collect::<Vec<_>>(), |x| d(&Some(x)), |g| d(&g)),
        r_opt!(v_csrc, "control::Source", architecture, set_architecture, "Architecture", "any", g_str, |x| x.as_str()),
        row!(v_csrc, "control::Source", rules_requires_root, set_rules_requires_root, "Rules-Requires-Root", "no", |r: &mut Rng| r.chance(1, 2), |x| *x, |x| d(&Some(x)), |g| d(&g)),
        r_str!(v_csrc, "control::Source", testsuite, set_testsuite, "Testsuite"),
        // ---- control::Binary
        r_str!(v_cbin, "control::Binary", name, set_name, "Package"),
        r_opt!(v_cbin, "control::Binary", section, set_section, "Section", "old", g_str, |x| x.as_str()),
        r_opt!(v_cbin, "control::Binary", priority, set_priority, "Priority", "extra", g_prio, |x| x),
        r_opt!(v_cbin, "control::Binary", architecture, set_architecture, "Architecture", "any", g_str, |x| x.as_str()),
        r_orel!(v_cbin, "control::Binary", depends, set_depends, "Depends"),
        r_orel!(v_cbin, "control::Binary", recommends, set_recommends, "Recommends"),
        r_orel!(v_cbin, "control::Binary", suggests, set_suggests, "Suggests"),
        r_orel!(v_cbin, "control::Binary", enhances, set_enhances, "Enhances"),
        r_orel!(v_cbin, "control::Binary", pre_depends, set_pre_depends, "Pre-Depends"),
        r_orel!(v_cbin, "control::Binary", breaks, set_breaks, "Breaks"),
        r_orel!(v_cbin, "control::Binary", conflicts, set_conflicts, "Conflicts"),
        r_orel!(v_cbin, "control::Binary", replaces, set_replaces, "Replaces"),
        r_orel!(v_cbin, "control::Binary", provides, set_provides, "Provides"),
        r_orel!(v_cbin, "control::Binary", built_using, set_built_using, "Built-Using"),
        r_opt!(v_cbin, "control::Binary", multi_arch, set_multi_arch, "Multi-Arch", "no", g_ma, |x| x),
        Row {
            view: "control::Binary", name: "essential", field: "Essential", base: "Source: foo\nMaintainer: M <m@e.org>\n\nPackage: bar\n", old: "yes",
            setget: |doc, r| {
                let mut view = v_cbin(doc);
                let x = r.chance(1, 2);
                view.set_essential(x);
                (d(&x), d(&view.essential()), !x)
            },
            get: |doc| d(&v_cbin(doc).essential()),
        },
        r_opt!(v_cbin, "control::Binary", description, set_description, "Description", "old\n more", g_multi, |x| x.as_str()),
        row!(v_cbin, "control::Binary", homepage, set_homepage, "Homepage", "https://old.example/", g_url, |x| &x, |x| d(&Some(x)), |g| d(&g)),
        // ---- apt::Source
        r_str!(v_asrc, "apt::Source", package, set_package, "Package"),
        r_val!(v_asrc, "apt::Source", version, set_version, "Version", "0.1", g_ver),
        r_str!(v_asrc, "apt::Source", maintainer, set_maintainer, "Maintainer"),
        r_ovec!(v_asrc, "apt::Source", uploaders, set_uploaders, "Uploaders", "Old <o@e.org>", g_people),
        r_str!(v_asrc, "apt::Source", standards_version, set_standards_version, "Standards-Version"),
        r_str!(v_asrc, "apt::Source", format, set_format, "Format"),
        r_str!(v_asrc, "apt::Source", vcs_browser, set_vcs_browser, "Vcs-Browser"),
        r_str!(v_asrc, "apt::Source", vcs_git, set_vcs_git, "Vcs-Git"),
        r_str!(v_asrc, "apt::Source", vcs_svn, set_vcs_svn, "Vcs-Svn"),
        r_str!(v_asrc, "apt::Source", vcs_hg, set_vcs_hg, "Vcs-Hg"),
        r_str!(v_asrc, "apt::Source", vcs_bzr, set_vcs_bzr, "Vcs-Bzr"),
        r_str!(v_asrc, "apt::Source", vcs_arch, set_vcs_arch, "Vcs-Arch"),
        r_str!(v_asrc, "apt::Source", vcs_svk, set_vcs_svk, "Vcs-Svk"),
        r_str!(v_asrc, "apt::Source", vcs_darcs, set_vcs_darcs, "Vcs-Darcs"),
        r_str!(v_asrc, "apt::Source", vcs_mtn, set_vcs_mtn, "Vcs-Mtn"),
        r_str!(v_asrc, "apt::Source", vcs_cvs, set_vcs_cvs, "Vcs-Cvs"),
        r_rel!(v_asrc, "apt::Source", build_depends, set_build_depends, "Build-Depends"),
        r_rel!(v_asrc, "apt::Source", build_depends_indep, set_build_depends_indep, "Build-Depends-Indep"),
        r_rel!(v_asrc, "apt::Source", build_depends_arch, set_build_depends_arch, "Build-Depends-Arch"),
        r_rel!(v_asrc, "apt::Source", build_conflicts, set_build_conflicts, "Build-Conflicts"),
        r_rel!(v_asrc, "apt::Source", build_conflicts_indep, set_build_conflicts_indep, "Build-Conflicts-Indep"),
        r_rel!(v_asrc, "apt::Source", build_conflicts_arch, set_build_conflicts_arch, "Build-Conflicts-Arch"),
        r_rel!(v_asrc, "apt::Source", binary, set_binary, "Binary"),
        r_str!(v_asrc, "apt::Source", homepage, set_homepage, "Homepage"),
        r_str!(v_asrc, "apt::Source", section, set_section, "Section"),
        r_val!(v_asrc, "apt::Source", priority, set_priority, "Priority", "extra", g_prio),
        r_str!(v_asrc, "apt::Source", architecture, set_architecture, "Architecture"),
        r_str!(v_asrc, "apt::Source", directory, set_directory, "Directory"),
        r_str!(v_asrc, "apt::Source", testsuite, set_testsuite, "Testsuite"),
        r_vec!(v_asrc, "apt::Source", files, set_files, "Files", SUMS_OLD, g_md5),
        r_vec!(v_asrc, "apt::Source", checksums_sha1, set_checksums_sha1, "Checksums-Sha1", SUMS_OLD, g_sha1),
        r_vec!(v_asrc, "apt::Source", checksums_sha256, set_checksums_sha256, "Checksums-Sha256", SUMS_OLD, g_sha256),
        r_vec!(v_asrc, "apt::Source", checksums_sha512, set_checksums_sha512, "Checksums-Sha512", SUMS_OLD, g_sha512),
        // ---- apt::Package
        r_str!(v_apkg, "apt::Package", name, set_name, "Package"),
        r_val!(v_apkg, "apt::Package", version, set_version, "Version", "0.1", g_ver),
        r_val!(v_apkg, "apt::Package", installed_size, set_installed_size, "Installed-Size", "7", g_usize),
        r_str!(v_apkg, "apt::Package", maintainer, set_maintainer, "Maintainer"),
        r_str!(v_apkg, "apt::Package", architecture, set_architecture, "Architecture"),
        r_rel!(v_apkg, "apt::Package", depends, set_depends, "Depends"),
        r_rel!(v_apkg, "apt::Package", recommends, set_recommends, "Recommends"),
        r_rel!(v_apkg, "apt::Package", suggests, set_suggests, "Suggests"),
        r_rel!(v_apkg, "apt::Package", enhances, set_enhances, "Enhances"),
        r_rel!(v_apkg, "apt::Package", pre_depends, set_pre_depends, "Pre-Depends"),
        r_rel!(v_apkg, "apt::Package", breaks, set_breaks, "Breaks"),
        r_rel!(v_apkg, "apt::Package", conflicts, set_conflicts, "Conflicts"),
        r_rel!(v_apkg, "apt::Package", replaces, set_replaces, "Replaces"),
        r_rel!(v_apkg, "apt::Package", provides, set_provides, "Provides"),
        r_str!(v_apkg, "apt::Package", section, set_section, "Section"),
        r_val!(v_apkg, "apt::Package", priority, set_priority, "Priority", "extra", g_prio),
        row!(v_apkg, "apt::Package", description, set_description, "Description", "old\n more", g_multi, |x| x.as_str(), |x| d(&Some(x)), |g| d(&g)),
        row!(v_apkg, "apt::Package", homepage, set_homepage, "Homepage", "https://old.example/", g_url, |x| &x, |x| d(&Some(x)), |g| d(&g)),
        r_str!(v_apkg, "apt::Package", source, set_source, "Source"),
        r_str!(v_apkg, "apt::Package", description_md5, set_description_md5, "Description-md5"),
        r_str!(v_apkg, "apt::Package", filename, set_filename, "Filename"),
        r_val!(v_apkg, "apt::Package", size, set_size, "Size", "7", g_usize),
        r_str!(v_apkg, "apt::Package", md5sum, set_md5sum, "MD5sum"),
        r_str!(v_apkg, "apt::Package", sha256, set_sha256, "SHA256"),
        row!(v_apkg, "apt::Package", multi_arch, set_multi_arch, "Multi-Arch", "no", g_ma, |x| MultiArch::from_str(&x.to_string()).unwrap(), |x| d(&Some(x)), |g| d(&g)),
        Row {
            view: "apt::Package", name: "tags", field: "Tag", base: "Package: apt\n", old: "old::tag",
            setget: |doc, r| {
                let mut view = v_apkg(doc);
                let x: Vec<String> = (0..r.range(1, 3)).map(|i| format!("role::t{}", i)).collect();
                view.set_tags("Tag", x.clone());
                (d(&Some(x)), d(&view.tags("Tag")), false)
            },
            get: |doc| d(&v_apkg(doc).tags("Tag")),
        },
        // ---- apt::Release
        r_str!(v_arel, "apt::Release", origin, set_origin, "Origin"),
        r_str!(v_arel, "apt::Release", label, set_label, "Label"),
        r_str!(v_arel, "apt::Release", suite, set_suite, "Suite"),
        r_str!(v_arel, "apt::Release", codename, set_codename, "Codename"),
        r_ovec!(v_arel, "apt::Release", changelogs, set_changelogs, "Changelogs", "https://old.example/", g_list),
        r_val!(v_arel, "apt::Release", date, set_date, "Date", DATE_OLD, g_date),
        r_val!(v_arel, "apt::Release", valid_until, set_valid_until, "Valid-Until", DATE_OLD, g_date),
        r_bool!(v_arel, "apt::Release", acquire_by_hash, set_acquire_by_hash, "Acquire-By-Hash"),
        r_bool!(v_arel, "apt::Release", no_support_for_architecture_all, set_no_support_for_architecture_all, "No-Support-For-Architecture-All"),
        r_ovec!(v_arel, "apt::Release", architectures, set_architectures, "Architectures", "old", g_list),
        r_ovec!(v_arel, "apt::Release", components, set_components, "Components", "old", g_list),
        row!(v_arel, "apt::Release", description, set_description, "Description", "old", g_str, |x| x.as_str(), |x| d(&Some(x)), |g| d(&g)),
        r_vec!(v_arel, "apt::Release", checksums_md5, set_checksums_md5, "MD5Sum", SUMS_OLD, g_md5),
        r_vec!(v_arel, "apt::Release", checksums_sha1, set_checksums_sha1, "SHA1", SUMS_OLD, g_sha1),
        r_vec!(v_arel, "apt::Release", checksums_sha256, set_checksums_sha256, "SHA256", SUMS_OLD, g_sha256),
        r_vec!(v_arel, "apt::Release", checksums_sha512, set_checksums_sha512, "SHA512", SUMS_OLD, g_sha512),
        // ---- Buildinfo
        r_str!(v_binfo, "Buildinfo", source, set_source, "Source"),
        r_ovec!(v_binfo, "Buildinfo", binaries, set_binaries, "Binary", "old", g_list),
        r_val!(v_binfo, "Buildinfo", version, set_version, "Version", "0.1", g_ver),
        r_str!(v_binfo, "Buildinfo", build_architecture, set_build_architecture, "Build-Architecture"),
        r_str!(v_binfo, "Buildinfo", architecture, set_architecture, "Architecture"),
        r_vec!(v_binfo, "Buildinfo", checksums_sha256, set_checksums_sha256, "Checksums-Sha256", SUMS_OLD, g_sha256),
        r_vec!(v_binfo, "Buildinfo", checksums_sha1, set_checksums_sha1, "Checksums-Sha1", SUMS_OLD, g_sha1),
        r_vec!(v_binfo, "Buildinfo", checksums_md5, set_checksums_md5, "Checksums-Md5", SUMS_OLD, g_md5),
        r_str!(v_binfo, "Buildinfo", build_origin, set_build_origin, "Build-Origin"),
        r_str!(v_binfo, "Buildinfo", build_date, set_build_date, "Build-Date"),
        r_ovec!(v_binfo, "Buildinfo", build_tainted_by, set_build_tainted_by, "Build-Tainted-By", "old", g_list),
        r_str!(v_binfo, "Buildinfo", format, set_format, "Format"),
        r_str!(v_binfo, "Buildinfo", build_path, set_build_path, "Build-Path"),
        Row {
            view: "Buildinfo", name: "environment", field: "Environment", base: "Format: 1.0\n", old: "\n OLD=\"1\"",
            setget: |doc, r| {
                let mut view = v_binfo(doc);
                let x: std::collections::HashMap<String, String> = (0..r.range(1, 3)).map(|i| (format!("VAR{}", i), format!("\"v {}\"", r.below(9)))).collect();
                let mut want: Vec<(String, String)> = x.clone().into_iter().collect();
                want.sort();
                view.set_environment(x);
                let got = view.environment().map(|m| {
                    let mut v: Vec<(String, String)> = m.into_iter().collect();
                    v.sort();
                    v
                });
                (d(&Some(want)), d(&got), false)
            },
            get: |doc| {
                d(&v_binfo(doc).environment().map(|m| {
                    let mut v: Vec<(String, String)> = m.into_iter().collect();
                    v.sort();
                    v
                }))
            },
        },
        r_rel!(v_binfo, "Buildinfo", installed_build_depends, set_installed_build_depends, "Installed-Build-Depends"),
    ];
    v.extend(other_rows());
    v
}

// ---- copyright and DEP-3 views are owned by their documents: rebuilt from the text
fn cp(doc: &Deb822) -> debian_copyright::lossless::Copyright {
    debian_copyright::lossless::Copyright::from_str(&doc.to_string()).expect("copyright text")
}
fn dp(doc: &Deb822) -> dep3::lossless::PatchHeader {
    dep3::lossless::PatchHeader::from_str(&doc.to_string()).expect("dep3 text")
}

// For views that own their tree the edited text is handed back through a side channel.
thread_local! {
    static EDITED: std::cell::RefCell<Option<String>> = const { std::cell::RefCell::new(None) };
}
pub fn take_edited() -> Option<String> {
    EDITED.with(|e| e.borrow_mut().take())
}
fn put_edited(s: String) {
    EDITED.with(|e| *e.borrow_mut() = Some(s));
}

macro_rules! own_row {
    ($view:expr, $name:expr, $field:expr, $old:expr, |$doc:ident, $r:ident| $body:block, |$doc2:ident| $get:block) => {
        Row { view: $view, name: $name, field: $field, base: base_of($view), old: $old, setget: |$doc, $r| $body, get: |$doc2| $get }
    };
}

fn other_rows() -> Vec<Row> {
    use dep3::{AppliedUpstream, Forwarded, Origin, OriginCategory};
    vec![
        own_row!("copyright::Header", "upstream_name", "Upstream-Name", "old", |doc, r| {
            let c = cp(doc); let mut h = c.header().unwrap(); let x = g_str(r); h.set_upstream_name(&x);
            let got = d(&h.upstream_name()); put_edited(c.to_string()); (d(&Some(x)), got, false)
        }, |doc| { d(&cp(doc).header().unwrap().upstream_name()) }),
        own_row!("copyright::Header", "upstream_contact", "Upstream-Contact", "old", |doc, r| {
            let c = cp(doc); let mut h = c.header().unwrap(); let x = g_str(r); h.set_upstream_contact(&x);
            let got = d(&h.upstream_contact()); put_edited(c.to_string()); (d(&Some(x)), got, false)
        }, |doc| { d(&cp(doc).header().unwrap().upstream_contact()) }),
        own_row!("copyright::Header", "source", "Source", "old", |doc, r| {
            let c = cp(doc); let mut h = c.header().unwrap(); let x = g_str(r); h.set_source(&x);
            let got = d(&h.source()); put_edited(c.to_string()); (d(&Some(x)), got, false)
        }, |doc| { d(&cp(doc).header().unwrap().source()) }),
        own_row!("copyright::Header", "files_excluded", "Files-Excluded", "old/*", |doc, r| {
            let c = cp(doc); let mut h = c.header().unwrap(); let x = g_list(r);
            h.set_files_excluded(&x.iter().map(|s| s.as_str()).collect::<Vec<_>>());
            let got = d(&h.files_excluded()); put_edited(c.to_string()); (d(&Some(x)), got, false)
        }, |doc| { d(&cp(doc).header().unwrap().files_excluded()) }),
        own_row!("copyright::FilesParagraph", "copyright", "Copyright", "1999 Old", |doc, r| {
            let c = cp(doc); let mut f = c.iter_files().next().unwrap(); let x = g_people(r);
            f.set_copyright(&x.iter().map(|s| s.as_str()).collect::<Vec<_>>());
            let got = d(&f.copyright()); put_edited(c.to_string()); (d(&x), got, false)
        }, |doc| { d(&cp(doc).iter_files().next().unwrap().copyright()) }),
        own_row!("copyright::FilesParagraph", "comment", "Comment", "old", |doc, r| {
            let c = cp(doc); let mut f = c.iter_files().next().unwrap(); let x = g_multi(r); f.set_comment(&x);
            let got = d(&f.comment()); put_edited(c.to_string()); (d(&Some(x)), got, false)
        }, |doc| { d(&cp(doc).iter_files().next().unwrap().comment()) }),
        own_row!("copyright::FilesParagraph", "license", "License", "Old-1.0", |doc, r| {
            let c = cp(doc); let mut f = c.iter_files().next().unwrap();
            let x = match r.below(2) { 0 => debian_copyright::License::Name("GPL-2+".into()), _ => debian_copyright::License::Named("MIT".into(), "Permission is granted\n.\nmore".into()) };
            f.set_license(&x);
            let got = d(&f.license()); put_edited(c.to_string()); (d(&Some(x)), got, false)
        }, |doc| { d(&cp(doc).iter_files().next().unwrap().license()) }),
        own_row!("dep3::PatchHeader", "origin", "Origin", "vendor, https://old.example/", |doc, r| {
            let mut h = dp(doc);
            let cat = [None, Some(OriginCategory::Backport), Some(OriginCategory::Vendor), Some(OriginCategory::Upstream), Some(OriginCategory::Other)][r.below(5)];
            let o = if r.chance(1, 2) { Origin::Commit("abc123".into()) } else { Origin::Other("https://e.org/p.patch".into()) };
            h.set_origin(cat, o.clone());
            let got = d(&h.origin()); put_edited(h.to_string()); (d(&Some((cat, o))), got, false)
        }, |doc| { d(&dp(doc).origin()) }),
        own_row!("dep3::PatchHeader", "forwarded", "Forwarded", "no", |doc, r| {
            let mut h = dp(doc);
            let x = [Forwarded::No, Forwarded::NotNeeded, Forwarded::Yes("https://lists.example.com/1".into())][r.below(3)].clone();
            h.set_forwarded(x.clone());
            let got = d(&h.forwarded()); put_edited(h.to_string()); (d(&Some(x)), got, false)
        }, |doc| { d(&dp(doc).forwarded()) }),
        own_row!("dep3::PatchHeader", "author", "Author", "Old <o@e.org>", |doc, r| {
            let mut h = dp(doc); let x = g_people(r)[0].clone(); h.set_author(&x);
            let got = d(&h.author()); put_edited(h.to_string()); (d(&Some(x)), got, false)
        }, |doc| { d(&dp(doc).author()) }),
        own_row!("dep3::PatchHeader", "last_update", "Last-Update", "1999-12-31", |doc, r| {
            let mut h = dp(doc);
            let x = chrono::NaiveDate::from_ymd_opt(2000 + r.below(30) as i32, 1 + r.below(12) as u32, 1 + r.below(28) as u32).unwrap();
            h.set_last_update(x);
            let got = d(&h.last_update()); put_edited(h.to_string()); (d(&Some(x)), got, false)
        }, |doc| { d(&dp(doc).last_update()) }),
        own_row!("dep3::PatchHeader", "applied_upstream", "Applied-Upstream", "1.0", |doc, r| {
            let mut h = dp(doc);
            let x = if r.chance(1, 2) { AppliedUpstream::Commit("deadbeef".into()) } else { AppliedUpstream::Other("2.0".into()) };
            h.set_applied_upstream(x.clone());
            let got = d(&h.applied_upstream()); put_edited(h.to_string()); (d(&Some(x)), got, false)
        }, |doc| { d(&dp(doc).applied_upstream()) }),
        // description and long description share one field: setting one must leave the other alone
        own_row!("dep3::PatchHeader", "description", "Description", "old short\n old long 1\n .\n old long 2", |doc, r| {
            let mut h = dp(doc); let x = g_str(r); let long_before = h.long_description(); h.set_description(&x);
            let got = format!("{:?}|{:?}", h.description(), h.long_description()); put_edited(h.to_string());
            (format!("{:?}|{:?}", Some(x), long_before.or(Some(String::new()))), got, false)
        }, |doc| { let h = dp(doc); format!("{:?}|{:?}", h.description(), h.long_description()) }),
        // git-format-patch spelling: the description lives in Subject, the author in From
        Row { view: "dep3::PatchHeader(Subject)", name: "description", field: "Subject", base: "Subject: old short\n old long 1\n .\n old long 2\n", old: "old short\n old long 1\n .\n old long 2",
            setget: |doc, r| { let mut h = dp(doc); let x = g_str(r); let long_before = h.long_description(); h.set_description(&x);
                let got = format!("{:?}|{:?}", h.description(), h.long_description()); put_edited(h.to_string());
                (format!("{:?}|{:?}", Some(x), long_before.or(Some(String::new()))), got, false) },
            get: |doc| { let h = dp(doc); format!("{:?}|{:?}", h.description(), h.long_description()) } },
        Row { view: "dep3::PatchHeader(Subject)", name: "long_description", field: "Subject", base: "Subject: old short\n old long 1\n old long 2\n", old: "old short\n old long 1\n old long 2",
            setget: |doc, r| { let mut h = dp(doc); let x = ["long text", "two\nlines", "a\n.\nb"][r.below(3)].to_string(); let short_before = h.description(); h.set_long_description(&x);
                let got = format!("{:?}|{:?}", h.long_description(), h.description()); put_edited(h.to_string());
                (format!("{:?}|{:?}", Some(x), short_before), got, false) },
            get: |doc| { let h = dp(doc); format!("{:?}|{:?}", h.long_description(), h.description()) } },
        Row { view: "dep3::PatchHeader(From)", name: "author", field: "From", base: "From: Old <o@e.org>\n", old: "Old <o@e.org>",
            setget: |doc, r| { let mut h = dp(doc); let x = g_people(r)[0].clone(); h.set_author(&x); let got = d(&h.author()); put_edited(h.to_string()); (d(&Some(x)), got, false) },
            get: |doc| d(&dp(doc).author()) },
        own_row!("dep3::PatchHeader", "long_description", "Description", "old short\n old long 1\n old long 2", |doc, r| {
            let mut h = dp(doc); let x = ["long text", "two\nlines", "a\n.\nb"][r.below(3)].to_string(); let short_before = h.description(); h.set_long_description(&x);
            let got = format!("{:?}|{:?}", h.long_description(), h.description()); put_edited(h.to_string());
            (format!("{:?}|{:?}", Some(x), short_before), got, false)
        }, |doc| { let h = dp(doc); format!("{:?}|{:?}", h.long_description(), h.description()) }),
    ]
}

// ---------------------------------------------------------------- the runner

const STATES: [&str; 7] = ["absent", "present-last", "present-with-comments", "between-others", "first", "absent-with-others", "absent-after-unterminated-comment"];

fn write_field(name: &str, raw: &str) -> String {
    let mut s = format!("{}:", name);
    let mut lines = raw.split('\n');
    let first = lines.next().unwrap_or("");
    if !first.is_empty() {
        s.push(' ');
        s.push_str(first);
    }
    s.push('\n');
    for l in lines {
        s.push_str(l.strip_prefix(' ').map(|_| l.to_string()).unwrap_or(format!(" {}", l)).as_str());
        s.push('\n');
    }
    s
}

/// the prior document for a row in a state: (text, is F present before)
fn prior(row: &Row, state: usize) -> (String, bool) {
    // the view's paragraph is the last paragraph of `base`; the row's field may be the lead field itself
    let base = row.base;
    let (head, lead) = match base.rfind("\n\n") {
        Some(i) => (&base[..i + 2], &base[i + 2..]),
        None => ("", base),
    };
    let lead_is_field = lead.starts_with(&format!("{}:", row.field));
    let f = write_field(row.field, row.old);
    let o1 = "X-Other-One:  keep 1\n   and this\n";
    let o2 = "X-Other-Two:\tkeep 2\n";
    if lead_is_field {
        // the field exists by construction: vary what surrounds it
        let body = match state {
            // (the field is the lead field: it cannot be absent; the document ends in an unterminated comment)
            6 => format!("{}{}# last words", lead, o1),
            0 | 1 => lead.to_string(),
            // (the comment stands inside the paragraph: a view that owns a single paragraph has no file-level comments)
            2 => format!("{}# before\n{}# after\n{}", o2, lead, o1),
            3 => format!("{}{}{}", o1, lead, o2),
            4 => format!("{}{}{}", lead, o1, o2),
            _ => format!("{}{}", o2, lead),
        };
        return (format!("{}{}", head, body), true);
    }
    // a copyright file must begin with its Format field: "first" means right after it there;
    // a long description can only be set next to a short one (the field's first line)
    let state = if state == 4 && row.view == "copyright::Header" { 3 } else { state };
    let state = if row.name == "long_description" && (state == 0 || state == 5) { 1 } else { state };
    let state = if row.name == "long_description" && state == 6 { 1 } else { state };
    let (body, present) = match state {
        // the file ends in a comment line without final newline
        6 => (format!("{}{}# last words", lead, o1), false),
        0 => (lead.to_string(), false),
        1 => (format!("{}{}", lead, f), true),
        2 => (format!("{}{}# before the field\n{}# after the field\n{}", lead, o1, f, o2), true),
        3 => (format!("{}{}{}{}", lead, o1, f, o2), true),
        4 => (format!("{}{}{}", f, lead, o1), true),
        _ => (format!("{}{}# a comment\n{}", lead, o1, o2), false),
    };
    (format!("{}{}", head, body), present)
}

fn view_para_items(text: &str) -> Option<Vec<(String, String)>> {
    Deb822::from_str(text).ok()?.paragraphs().last().map(|p| p.items().collect())
}

fn check_row(ctx: &mut Ctx, row: &Row, text: &str, r: &mut Rng, shape: &str) -> Option<String> {
    let who = format!("{}::{}", row.view, row.name);
    let fail = |ctx: &mut Ctx, kind: &str, info: serde_json::Value| {
        ctx.violation(&format!("{}|{}|{}", kind, who, shape), info);
    };
    let Some(before_items) = view_para_items(text) else {
        ctx.harness_error("prior document rejected", json!({"text": text}));
        return None;
    };
    let res = guard(text.len() * 4 + 4096, || {
        let doc = Deb822::from_str(text).unwrap();
        take_edited();
        let (exp, got, cleared) = (row.setget)(&doc, r);
        let after = take_edited().unwrap_or_else(|| doc.to_string());
        (exp, got, cleared, after)
    });
    let (exp, got, cleared, after) = match res {
        Ok(x) => x,
        Err(f) => {
            fail(ctx, &f.class(), json!({"prior": text, "failure": f.json()}));
            return None;
        }
    };
    if got != exp {
        fail(ctx, "getter-differs-from-set-value", json!({"prior": text, "set": exp, "getter": got, "after": clip(&after)}));
        return None;
    }
    // the printed document re-reads, and the getter on the re-read document gives the same
    let re = guard(after.len() * 4 + 4096, || Deb822::from_str(&after).map(|d2| (row.get)(&d2)));
    match re {
        Err(f) => {
            fail(ctx, &f.class(), json!({"prior": text, "after": clip(&after), "failure": f.json()}));
            return None;
        }
        Ok(Err(e)) => {
            fail(ctx, "printed-text-not-parseable", json!({"prior": text, "after": clip(&after), "error": e.to_string()}));
            return None;
        }
        Ok(Ok(g2)) => {
            if g2 != exp {
                fail(ctx, "reread-getter-differs", json!({"prior": text, "set": exp, "reread": g2, "after": clip(&after)}));
                return None;
            }
        }
    }
    // exactly one field of the documented name (none after clearing); nothing else moved
    let Some(after_items) = view_para_items(&after) else {
        fail(ctx, "view-paragraph-lost", json!({"prior": text, "after": clip(&after)}));
        return None;
    };
    let n = after_items.iter().filter(|(k, _)| k == row.field).count();
    if n != if cleared { 0 } else { 1 } {
        fail(ctx, if n == 0 { "field-not-written-under-documented-name" } else if cleared { "field-not-cleared" } else { "field-duplicated" }, json!({"prior": text, "field": row.field, "count": n, "after": clip(&after)}));
        return None;
    }
    let others = |v: &Vec<(String, String)>| v.iter().filter(|(k, _)| k != row.field).cloned().collect::<Vec<_>>();
    if others(&before_items) != others(&after_items) {
        fail(ctx, "other-field-changed", json!({"prior": text, "after": clip(&after), "before_items": others(&before_items), "after_items": others(&after_items)}));
        return None;
    }
    // byte-level: everything outside the field is unchanged
    if let (Some(sb), Some(sa)) = (segments(text), segments(&after)) {
        let drop = |segs: &Vec<Seg>| -> Vec<(usize, usize)> {
            segs.iter().filter_map(|s| if let Seg::Field(p, o, raw) = s { if raw.starts_with(&format!("{}:", row.field)) { Some((*p, *o)) } else { None } } else { None }).collect()
        };
        // only the view's paragraph (the last one) may be touched
        let lastp = sb.iter().filter_map(|s| if let Seg::Field(p, _, _) = s { Some(*p) } else { None }).max().unwrap_or(0);
        let db: Vec<(usize, usize)> = drop(&sb).into_iter().filter(|(p, _)| *p == lastp).collect();
        let da: Vec<(usize, usize)> = drop(&sa).into_iter().filter(|(p, _)| *p == lastp).collect();
        // (a line feed supplied at a formerly unterminated end of the text is the one tolerated difference, as in C04)
        let (rb, ra) = (remainder(&sb, &db), remainder(&sa, &da));
        let terminated = !text.ends_with('\n') && ra == format!("{}\n", rb);
        if rb != ra && !terminated {
            fail(ctx, "bytes-outside-field-changed", json!({"prior": text, "after": clip(&after)}));
            return None;
        }
    } else {
        ctx.count("skipped:locality-not-scannable");
    }
    Some(after)
}

fn setget_lane(ctx: &mut Ctx, idx: u64) {
    let rs = rows();
    let row = &rs[(idx % rs.len() as u64) as usize];
    let state = ((idx / rs.len() as u64) % 7) as usize;
    let mut r = ctx.rng();
    let (text, present) = prior(row, state);
    let shape = format!("state:{}", STATES[state]);
    let ok = check_row(ctx, row, &text, &mut r, &shape).is_some();
    ctx.count(if ok { "held" } else { "violated" });
    ctx.count(&format!("row:{}::{}", row.view, row.name));
    ctx.count(&format!("state:{}:{}", STATES[state], if present { "present" } else { "absent" }));
    ctx.nontrivial(format!("{}|{}|{}|{}", row.view, row.name, state, idx / (6 * rs.len() as u64)).as_bytes());
    ctx.sample(|| json!({"accessor": format!("{}::{}", row.view, row.name), "field": row.field, "state": STATES[state], "prior": text}));
}

/// several setters in sequence on one paragraph: each must still read back afterwards
fn sequences_lane(ctx: &mut Ctx, _idx: u64) {
    let rs = rows();
    let mut r = ctx.rng();
    let first = &rs[r.below(rs.len())];
    let same_view: Vec<&Row> = rs.iter().filter(|x| x.view == first.view).collect();
    let (mut text, _) = prior(first, r.below(6));
    let mut log: Vec<String> = vec![];
    let n = r.range(2, 4);
    let mut expectations: Vec<(&Row, String)> = vec![];
    for _ in 0..n {
        let row = *r.pick(&same_view);
        if row.name == "long_description" && !text.contains("Description:") && !text.contains("Subject:") {
            // a long description can only be set next to a short one
            ctx.count("skipped:long-description-without-short");
            continue;
        }
        log.push(format!("{}::{}", row.view, row.name));
        // remember what the getter must read: run the setter through the checker
        let doc_before = text.clone();
        let Some(after) = check_row(ctx, row, &doc_before, &mut r, "sequence") else { return };
        let now = guard(after.len() * 4 + 4096, || Deb822::from_str(&after).map(|d| (row.get)(&d)).unwrap_or_default()).unwrap_or_default();
        expectations.retain(|(x, _)| !(x.field == row.field && x.view == row.view));
        expectations.push((row, now));
        text = after;
        // earlier setters' values are still read
        for (x, want) in &expectations {
            let got = guard(text.len() * 4 + 4096, || Deb822::from_str(&text).map(|d| (x.get)(&d)).unwrap_or_default()).unwrap_or_default();
            if got != *want {
                ctx.violation(&format!("setters-interfere|{}::{}|sequence", x.view, x.name), json!({"sequence": log, "text": clip(&text), "expected": want, "got": got}));
                return;
            }
        }
    }
    ctx.count("held");
    ctx.nontrivial(format!("{:?}|{}", log, text).as_bytes());
    ctx.sample(|| json!({"sequence": log, "final_text": clip(&text)}));
}

// ---------------------------------------------------------------- read side

pub struct Read {
    pub what: &'static str,
    pub text: &'static str,
    pub read: fn(&Deb822) -> String,
    pub expect: &'static str,
}

pub fn reads() -> Vec<Read> {
    vec![
        Read { what: "control::Source::uploaders comma-separated", text: "Source: foo\nUploaders: Ann <a@e.org>,Bob <b@e.org> ,\n Cy <c@e.org>\n", read: |d| format!("{:?}", v_csrc(d).uploaders()), expect: "Some([\"Ann <a@e.org>\", \"Bob <b@e.org>\", \"Cy <c@e.org>\"])" },
        Read { what: "control::Source::rules_requires_root yes", text: "Source: foo\nRules-Requires-Root: yes\n", read: |d| format!("{:?}", v_csrc(d).rules_requires_root()), expect: "Some(true)" },
        Read { what: "control::Source::rules_requires_root no", text: "Source: foo\nRules-Requires-Root:   no\n", read: |d| format!("{:?}", v_csrc(d).rules_requires_root()), expect: "Some(false)" },
        Read { what: "control::Source::rules_requires_root keyword list (no panic)", text: "Source: foo\nRules-Requires-Root: binary-targets\n", read: |d| { let _ = v_csrc(d).rules_requires_root(); "no panic".to_string() }, expect: "no panic" },
        Read { what: "control::Source::vcs Git", text: "Source: foo\nVcs-Browser: https://salsa.debian.org/x/y\nVcs-Git: https://salsa.debian.org/x/y.git -b debian/sid [sub]\n", read: |d| format!("{:?}", v_csrc(d).vcs().map(|v| v.to_field().1)), expect: "Some(\"https://salsa.debian.org/x/y.git -b debian/sid [sub]\")" },
        Read { what: "control::Source::vcs past a Vcs field of a kind that is not understood", text: "Source: foo\nVcs-Mtn: mtn.example.org foo.bar\nVcs-Git: https://salsa.debian.org/x/y.git\n", read: |d| format!("{:?}", v_csrc(d).vcs().map(|v| v.to_field().1)), expect: "Some(\"https://salsa.debian.org/x/y.git\")" },
        Read { what: "control::Source::vcs Svn", text: "Source: foo\nVcs-Svn: svn://e.org/x\n", read: |d| format!("{:?}", v_csrc(d).vcs().map(|v| (v.to_field().0.to_string(), v.to_field().1))), expect: "Some((\"Svn\", \"svn://e.org/x\"))" },
        Read { what: "control::Source::priority", text: "Source: foo\nPriority: optional\n", read: |d| format!("{:?}", v_csrc(d).priority()), expect: "Some(Optional)" },
        Read { what: "control::Source::build_depends entries", text: "Source: foo\nBuild-Depends: a (>= 1),\n b | c,\n d [amd64]\n", read: |d| format!("{:?}", v_csrc(d).build_depends().map(|r| r.entries().map(|e| e.to_string().trim().to_string()).collect::<Vec<_>>())), expect: "Some([\"a (>= 1)\", \"b | c\", \"d [amd64]\"])" },
        Read { what: "control::Binary::depends with substitution variables", text: "Source: foo\n\nPackage: bar\nDepends: ${shlibs:Depends}, ${misc:Depends},\n baz (>= 1)\n", read: |d| format!("{:?}", v_cbin(d).depends().map(|r| (r.entries().map(|e| e.to_string().trim().to_string()).collect::<Vec<_>>(), r.substvars().collect::<Vec<_>>()))), expect: "Some(([\"baz (>= 1)\"], [\"${shlibs:Depends}\", \"${misc:Depends}\"]))" },
        Read { what: "control::Source::build_depends with substitution variable", text: "Source: foo\nBuild-Depends: debhelper-compat (= 13), ${extra:Build-Depends}\n", read: |d| format!("{:?}", v_csrc(d).build_depends().map(|r| (r.entries().count(), r.substvars().collect::<Vec<_>>()))), expect: "Some((1, [\"${extra:Build-Depends}\"]))" },
        Read { what: "Buildinfo::build_tainted_by folded, one tag per line", text: "Format: 1.0\nBuild-Tainted-By:\n merged-usr-via-aliased-dirs\n usr-local-has-programs\n", read: |d| format!("{:?}", v_binfo(d).build_tainted_by()), expect: "Some([\"merged-usr-via-aliased-dirs\", \"usr-local-has-programs\"])" },
        Read { what: "Buildinfo::build_tainted_by several blanks", text: "Format: 1.0\nBuild-Tainted-By: a  b\n", read: |d| format!("{:?}", v_binfo(d).build_tainted_by()), expect: "Some([\"a\", \"b\"])" },
        Read { what: "control::Binary::essential yes", text: "Source: foo\n\nPackage: bar\nEssential: yes\n", read: |d| format!("{:?}", v_cbin(d).essential()), expect: "true" },
        Read { what: "control::Binary::essential no", text: "Source: foo\n\nPackage: bar\nEssential: no\n", read: |d| format!("{:?}", v_cbin(d).essential()), expect: "false" },
        Read { what: "control::Binary::essential absent", text: "Source: foo\n\nPackage: bar\n", read: |d| format!("{:?}", v_cbin(d).essential()), expect: "false" },
        Read { what: "control::Binary::multi_arch", text: "Source: foo\n\nPackage: bar\nMulti-Arch: foreign\n", read: |d| format!("{:?}", v_cbin(d).multi_arch()), expect: "Some(Foreign)" },
        Read { what: "control::Binary::description all lines", text: "Source: foo\n\nPackage: bar\nDescription: short one\n longer text\n .\n more\n", read: |d| format!("{:?}", v_cbin(d).description()), expect: "Some(\"short one\\nlonger text\\n.\\nmore\")" },
        Read { what: "Control::source/binaries selection", text: "# c\nPackage: b1\nArchitecture: any\n\nSource: s\nSection: libs\n\nPackage: b2\n", read: |d| { let c = control::Control::from_str(&d.to_string()).unwrap(); format!("{:?} {:?}", c.source().and_then(|s| s.name()), c.binaries().map(|b| b.name()).collect::<Vec<_>>()) }, expect: "Some(\"s\") [Some(\"b1\"), Some(\"b2\")]" },
        Read { what: "apt::Source::files triples", text: "Package: cvsd\nFiles:\n b7a7d67a02974c52c408fdb5e118406d 890 cvsd_1.0.24.dsc\n b73ee40774c3086cb8490cdbb96ac883 258139 cvsd_1.0.24.tar.gz\n", read: |d| format!("{:?}", v_asrc(d).files().iter().map(|f| (f.md5sum.clone(), f.size, f.filename.clone())).collect::<Vec<_>>()), expect: "[(\"b7a7d67a02974c52c408fdb5e118406d\", 890, \"cvsd_1.0.24.dsc\"), (\"b73ee40774c3086cb8490cdbb96ac883\", 258139, \"cvsd_1.0.24.tar.gz\")]" },
        Read { what: "apt::Source::checksums_sha256 triples", text: "Package: cvsd\nChecksums-Sha256:\n a7bb 890 cvsd_1.0.24.dsc\n 46bc 258139 cvsd_1.0.24.tar.gz\n", read: |d| format!("{:?}", v_asrc(d).checksums_sha256().iter().map(|f| (f.sha256.clone(), f.size, f.filename.clone())).collect::<Vec<_>>()), expect: "[(\"a7bb\", 890, \"cvsd_1.0.24.dsc\"), (\"46bc\", 258139, \"cvsd_1.0.24.tar.gz\")]" },
        Read { what: "apt::Source::uploaders comma-separated", text: "Package: cvsd\nUploaders: A <a@e.org>, B <b@e.org>\n", read: |d| format!("{:?}", v_asrc(d).uploaders()), expect: "Some([\"A <a@e.org>\", \"B <b@e.org>\"])" },
        Read { what: "apt::Source::version", text: "Package: cvsd\nVersion: 1:1.0.24-1~bpo1\n", read: |d| format!("{:?}", v_asrc(d).version().map(|v| v.to_string())), expect: "Some(\"1:1.0.24-1~bpo1\")" },
        Read { what: "apt::Package::installed_size", text: "Package: apt\nInstalled-Size: 3524\n", read: |d| format!("{:?}", v_apkg(d).installed_size()), expect: "Some(3524)" },
        Read { what: "apt::Package::tags comma-separated", text: "Package: apt\nTag: admin::package-management, role::program,\n suite::debian\n", read: |d| format!("{:?}", v_apkg(d).tags("Tag")), expect: "Some([\"admin::package-management\", \"role::program\", \"suite::debian\"])" },
        Read { what: "apt::Package::depends entries", text: "Package: apt\nDepends: libc6 (>= 2.14), libgcc1\n", read: |d| format!("{:?}", v_apkg(d).depends().map(|r| r.entries().count())), expect: "Some(2)" },
        Read { what: "apt::Release::architectures space-separated", text: "Origin: Debian\nArchitectures: amd64  arm64\n i386\n", read: |d| format!("{:?}", v_arel(d).architectures()), expect: "Some([\"amd64\", \"arm64\", \"i386\"])" },
        Read { what: "apt::Release::components space-separated", text: "Origin: Debian\nComponents: main contrib non-free\n", read: |d| format!("{:?}", v_arel(d).components()), expect: "Some([\"main\", \"contrib\", \"non-free\"])" },
        Read { what: "apt::Release::acquire_by_hash yes", text: "Origin: Debian\nAcquire-By-Hash: yes\n", read: |d| format!("{:?}", v_arel(d).acquire_by_hash()), expect: "true" },
        Read { what: "apt::Release::acquire_by_hash no", text: "Origin: Debian\nAcquire-By-Hash: no\n", read: |d| format!("{:?}", v_arel(d).acquire_by_hash()), expect: "false" },
        Read { what: "apt::Release::date rfc2822", text: "Origin: Debian\nDate: Sat, 02 Mar 2024 14:21:09 UTC\n", read: |d| format!("{:?}", v_arel(d).date().map(|x| x.to_rfc3339())), expect: "Some(\"2024-03-02T14:21:09+00:00\")" },
        Read { what: "apt::Release::checksums_sha256 triples", text: "Origin: Debian\nSHA256:\n e3b0 0 main/binary-amd64/Packages\n aa11      1234 main/source/Sources.xz\n", read: |d| format!("{:?}", v_arel(d).checksums_sha256().iter().map(|f| (f.sha256.clone(), f.size, f.filename.clone())).collect::<Vec<_>>()), expect: "[(\"e3b0\", 0, \"main/binary-amd64/Packages\"), (\"aa11\", 1234, \"main/source/Sources.xz\")]" },
        Read { what: "apt::Release::checksums_md5 triples", text: "Origin: Debian\nMD5Sum:\n d41d 0 a\n", read: |d| format!("{:?}", v_arel(d).checksums_md5().iter().map(|f| (f.md5sum.clone(), f.size, f.filename.clone())).collect::<Vec<_>>()), expect: "[(\"d41d\", 0, \"a\")]" },
        Read { what: "Buildinfo::binaries space-separated", text: "Format: 1.0\nBinary: a b  c\n", read: |d| format!("{:?}", v_binfo(d).binaries()), expect: "Some([\"a\", \"b\", \"c\"])" },
        Read { what: "Buildinfo::environment lines", text: "Format: 1.0\nEnvironment:\n DEB_BUILD_OPTIONS=\"parallel=4\"\n LANG=\"C.UTF-8\"\n", read: |d| { let mut v: Vec<(String, String)> = v_binfo(d).environment().unwrap_or_default().into_iter().collect(); v.sort(); format!("{:?}", v) }, expect: "[(\"DEB_BUILD_OPTIONS\", \"\\\"parallel=4\\\"\"), (\"LANG\", \"\\\"C.UTF-8\\\"\")]" },
        Read { what: "Buildinfo::checksums_sha1 triples", text: "Format: 1.0\nChecksums-Sha1:\n da39 12 a.deb\n", read: |d| format!("{:?}", v_binfo(d).checksums_sha1().iter().map(|f| (f.sha1.clone(), f.size, f.filename.clone())).collect::<Vec<_>>()), expect: "[(\"da39\", 12, \"a.deb\")]" },
        Read { what: "Changes accessors", text: "Format: 1.8\nSource: foo\nBinary: a b\nArchitecture: source amd64\nVersion: 1.0-1\nDistribution: unstable\nUrgency: medium\nMaintainer: M <m@e.org>\nChanged-By: C <c@e.org>\nDescription:\n a - x\nChecksums-Sha1:\n da39 12 a.deb\nFiles:\n d41d 12 utils optional a.deb\n", read: |d| { let c = debian_control::lossless::changes::Changes::read(d.to_string().as_bytes()).unwrap(); format!("{:?} {:?} {:?} {:?} {:?} {:?} {:?} {:?}", c.format(), c.source(), c.binary(), c.architecture(), c.version().map(|v| v.to_string()), c.distribution(), c.urgency(), c.files().map(|f| f.iter().map(|x| x.to_string()).collect::<Vec<_>>())) }, expect: "Some(\"1.8\") Some(\"foo\") Some([\"a\", \"b\"]) Some([\"source\", \"amd64\"]) Some(\"1.0-1\") Some(\"unstable\") Some(Medium) Some([\"d41d 12 utils optional a.deb\"])" },
        Read { what: "Changes maintainer/changed_by/description/checksums", text: "Format: 1.8\nSource: foo\nBinary: a b\nArchitecture: source amd64\nVersion: 1.0-1\nDistribution: unstable\nUrgency: medium\nMaintainer: M <m@e.org>\nChanged-By: C <c@e.org>\nDescription:\n a - x\n b - y\nChecksums-Sha1:\n da39 12 a.deb\nChecksums-Sha256:\n e3b0 12 a.deb\n 77aa 5 b.deb\nFiles:\n d41d 12 utils optional a.deb\n", read: |d| { let c = debian_control::lossless::changes::Changes::read(d.to_string().as_bytes()).unwrap(); format!("{:?} {:?} {:?} {:?} {:?}", c.maintainer(), c.changed_by(), c.description(), c.checksums_sha1().map(|v| v.iter().map(|f| (f.sha1.clone(), f.size, f.filename.clone())).collect::<Vec<_>>()), c.checksums_sha256().map(|v| v.iter().map(|f| (f.sha256.clone(), f.size, f.filename.clone())).collect::<Vec<_>>())) }, expect: "Some(\"M <m@e.org>\") Some(\"C <c@e.org>\") Some(\"a - x\\nb - y\") Some([(\"da39\", 12, \"a.deb\")]) Some([(\"e3b0\", 12, \"a.deb\"), (\"77aa\", 5, \"b.deb\")])" },
        Read { what: "Changes::get_pool_path main", text: "Format: 1.8\nSource: foo\nFiles:\n d41d 12 utils optional a.deb\n", read: |d| { let c = debian_control::lossless::changes::Changes::read(d.to_string().as_bytes()).unwrap(); format!("{:?}", c.get_pool_path()) }, expect: "Some(\"pool/main/f/foo\")" },
        Read { what: "Changes::get_pool_path component from the section", text: "Format: 1.8\nSource: foo\nFiles:\n d41d 12 non-free/utils optional a.deb\n", read: |d| { let c = debian_control::lossless::changes::Changes::read(d.to_string().as_bytes()).unwrap(); format!("{:?}", c.get_pool_path()) }, expect: "Some(\"pool/non-free/f/foo\")" },
        Read { what: "Changes::get_pool_path lib prefix (pool/main/libf/libfoo in the Debian archive)", text: "Format: 1.8\nSource: libfoo\nFiles:\n d41d 12 libs optional a.deb\n", read: |d| { let c = debian_control::lossless::changes::Changes::read(d.to_string().as_bytes()).unwrap(); format!("{:?}", c.get_pool_path()) }, expect: "Some(\"pool/main/libf/libfoo\")" },
        Read { what: "Changes::get_pool_path without Files", text: "Format: 1.8\nSource: foo\n", read: |d| { let c = debian_control::lossless::changes::Changes::read(d.to_string().as_bytes()).unwrap(); format!("{:?}", c.get_pool_path()) }, expect: "None" },
        Read { what: "Changes::get_pool_path with an empty Files field (no panic)", text: "Format: 1.8\nSource: foo\nFiles:\n", read: |d| { let c = debian_control::lossless::changes::Changes::read(d.to_string().as_bytes()).unwrap(); let _ = c.get_pool_path(); "no panic".to_string() }, expect: "no panic" },
        Read { what: "control::Source build relation getters", text: "Source: foo\nBuild-Depends-Indep: a, b\nBuild-Depends-Arch: c (>= 1)\nBuild-Conflicts: d\nBuild-Conflicts-Indep: e | f\nBuild-Conflicts-Arch: g [amd64]\n", read: |d| { let s = v_csrc(d); let t = |r: Option<Relations>| r.map(|r| r.entries().map(|e| e.to_string().trim().to_string()).collect::<Vec<_>>()); format!("{:?} {:?} {:?} {:?} {:?}", t(s.build_depends_indep()), t(s.build_depends_arch()), t(s.build_conflicts()), t(s.build_conflicts_indep()), t(s.build_conflicts_arch())) }, expect: "Some([\"a\", \"b\"]) Some([\"c (>= 1)\"]) Some([\"d\"]) Some([\"e | f\"]) Some([\"g [amd64]\"])" },
        Read { what: "control::Source build relation getters absent", text: "Source: foo\nBuild-Depends: z\n", read: |d| { let s = v_csrc(d); format!("{} {} {} {} {}", s.build_depends_indep().is_none(), s.build_depends_arch().is_none(), s.build_conflicts().is_none(), s.build_conflicts_indep().is_none(), s.build_conflicts_arch().is_none()) }, expect: "true true true true true" },
        Read { what: "control::Source::vcs Git subpath and branch URL", text: "Source: foo\nVcs-Git: https://salsa.debian.org/x/y.git -b debian/sid [sub/dir]\n", read: |d| { let v = v_csrc(d).vcs().unwrap(); format!("{:?} {:?}", v.subpath(), v.to_branch_url()) }, expect: "Some(\"sub/dir\") Some(\"https://salsa.debian.org/x/y.git,branch=debian/sid\")" },
        Read { what: "control::Source::vcs Git without a branch: branch URL is the repository URL", text: "Source: foo\nVcs-Git: https://salsa.debian.org/x/y.git\n", read: |d| { let v = v_csrc(d).vcs().unwrap(); format!("{:?} {:?}", v.subpath(), v.to_branch_url()) }, expect: "None Some(\"https://salsa.debian.org/x/y.git\")" },
        Read { what: "control::Source::vcs Svn/Hg/Bzr branch URL", text: "Source: foo\nVcs-Bzr: https://e.org/bzr/x [p]\n", read: |d| { let v = v_csrc(d).vcs().unwrap(); format!("{:?} {:?}", v.subpath(), v.to_branch_url()) }, expect: "Some(\"p\") Some(\"https://e.org/bzr/x\")" },
        Read { what: "Control::add_binary appends a paragraph found by binaries()", text: "# head\nSource: s\nSection: libs\n\nPackage: b1\n", read: |d| { let mut c = control::Control::from_str(&d.to_string()).unwrap(); let b = c.add_binary("b2"); format!("{:?} {:?} {:?}", b.name(), c.binaries().map(|b| b.name()).collect::<Vec<_>>(), c.as_deb822().to_string()) }, expect: "Some(\"b2\") [Some(\"b1\"), Some(\"b2\")] \"# head\\nSource: s\\nSection: libs\\n\\nPackage: b1\\n\\nPackage: b2\\n\"" },
        Read { what: "Control::add_source on a file without one", text: "Package: b1\nArchitecture: any\n", read: |d| { let mut c = control::Control::from_str(&d.to_string()).unwrap(); let s = c.add_source("s"); format!("{:?} {:?} {:?}", s.name(), c.source().and_then(|s| s.name()), c.as_deb822().to_string()) }, expect: "Some(\"s\") Some(\"s\") \"Package: b1\\nArchitecture: any\\n\\nSource: s\\n\"" },
        Read { what: "copyright::Header::fix updates an old format URL", text: "Format: http://www.debian.org/doc/packaging-manuals/copyright-format/1.0\nUpstream-Name: x\n# c\nSource: https://e.org\n", read: |d| { let c = cp(d); let mut h = c.header().unwrap(); h.fix(); format!("{:?} {:?}", h.format_string(), c.to_string()) }, expect: "Some(\"https://www.debian.org/doc/packaging-manuals/copyright-format/1.0/\") \"Format: https://www.debian.org/doc/packaging-manuals/copyright-format/1.0/\\nUpstream-Name: x\\n# c\\nSource: https://e.org\\n\"" },
        Read { what: "copyright::Header::fix leaves a current header alone", text: "Format: https://www.debian.org/doc/packaging-manuals/copyright-format/1.0/\nUpstream-Name: x\n", read: |d| { let c = cp(d); let mut h = c.header().unwrap(); h.fix(); c.to_string() }, expect: "Format: https://www.debian.org/doc/packaging-manuals/copyright-format/1.0/\nUpstream-Name: x\n" },
        Read { what: "dep3::PatchHeader set_upstream_bug / set_vendor_bug add fields that bugs() reports", text: "Description: x\nBug: https://e.org/1\n", read: |d| { let mut h = dp(d); h.set_upstream_bug("https://e.org/2"); h.set_vendor_bug("Debian", "https://bugs.debian.org/3"); format!("{:?} {:?}", h.bugs().collect::<Vec<_>>(), h.vendor_bugs("Debian").collect::<Vec<_>>()) }, expect: "[(None, \"https://e.org/1\"), (None, \"https://e.org/2\"), (Some(\"Debian\"), \"https://bugs.debian.org/3\")] [\"https://bugs.debian.org/3\"]" },
        Read { what: "Control::new + add_source + add_binary build a control file from nothing", text: "X: y\n", read: |_| { let mut c = control::Control::new(); let mut s = c.add_source("s"); s.set_section(Some("libs")); let mut b = c.add_binary("b"); b.set_architecture(Some("any")); format!("{:?} {:?} {:?}", c.as_deb822().to_string(), c.source().and_then(|s| s.section()), c.binaries().map(|b| b.architecture()).collect::<Vec<_>>()) }, expect: "\"Source: s\\nSection: libs\\n\\nPackage: b\\nArchitecture: any\\n\" Some(\"libs\") [Some(\"any\")]" },
        Read { what: "Copyright::new carries the current format, Copyright::empty nothing", text: "X: y\n", read: |_| { let c = debian_copyright::lossless::Copyright::new(); let e = debian_copyright::lossless::Copyright::empty(); format!("{:?} {:?} {:?} {}", c.to_string(), c.header().and_then(|h| h.format_string()), e.to_string(), e.header().is_none()) }, expect: "\"Format: https://www.debian.org/doc/packaging-manuals/copyright-format/1.0/\\n\" Some(\"https://www.debian.org/doc/packaging-manuals/copyright-format/1.0/\") \"\" true" },
        Read { what: "dep3::PatchHeader::new + setters build a header from nothing", text: "X: y\n", read: |_| { let mut h = dep3::lossless::PatchHeader::new(); h.set_description("short"); h.set_author("A <a@e.org>"); h.set_upstream_bug("https://e.org/1"); format!("{:?} {:?} {:?} {:?}", h.to_string(), h.description(), h.author(), h.bugs().collect::<Vec<_>>()) }, expect: "\"Description: short\\nAuthor: A <a@e.org>\\nBug: https://e.org/1\\n\" Some(\"short\") Some(\"A <a@e.org>\") [(None, \"https://e.org/1\")]" },
        Read { what: "copyright::LicenseParagraph::comment", text: "Format: x\n\nLicense: MIT\n text\nComment: why\n more\n", read: |d| { let c = cp(d); let l = c.iter_licenses().next().unwrap(); format!("{:?}", l.comment()) }, expect: "Some(\"why\\nmore\")" },
        Read { what: "fields::Checksum::filename/size on the four checksum types", text: "Package: cvsd\nFiles:\n b7a7 890 a.dsc\nChecksums-Sha1:\n da39 891 b.dsc\nChecksums-Sha256:\n a7bb 892 c.dsc\nChecksums-Sha512:\n cf83 893 d.dsc\n", read: |d| { use debian_control::fields::Checksum; let s = v_asrc(d); let mut v: Vec<(String, usize)> = vec![]; v.extend(s.files().iter().map(|f| (f.filename(), f.size()))); v.extend(s.checksums_sha1().iter().map(|f| (f.filename(), f.size()))); v.extend(s.checksums_sha256().iter().map(|f| (f.filename(), f.size()))); v.extend(s.checksums_sha512().iter().map(|f| (f.filename(), f.size()))); format!("{:?}", v) }, expect: "[(\"a.dsc\", 890), (\"b.dsc\", 891), (\"c.dsc\", 892), (\"d.dsc\", 893)]" },
        Read { what: "Changes::source and get_pool_path with a versioned Source field (binNMU)", text: "Format: 1.8\nSource: hello (2.10-3)\nBinary: hello\nVersion: 2.10-3+b1\nFiles:\n aa83 56132 devel optional hello_2.10-3+b1_amd64.deb\n", read: |d| { let c = debian_control::lossless::changes::Changes::read(d.to_string().as_bytes()).unwrap(); format!("{:?} {:?}", c.source(), c.get_pool_path()) }, expect: "Some(\"hello\") Some(\"pool/main/h/hello\")" },
        Read { what: "Changes::set_format", text: "Format: 1.7\nSource: foo\n", read: |d| { let mut c = debian_control::lossless::changes::Changes::read(d.to_string().as_bytes()).unwrap(); c.set_format("1.8"); format!("{:?}", c.format()) }, expect: "Some(\"1.8\")" },
        Read { what: "copyright::Header::format_string + files_excluded lines", text: "Format: https://www.debian.org/doc/packaging-manuals/copyright-format/1.0/\nFiles-Excluded: vendor/*\n *.min.js\n", read: |d| { let c = cp(d); let h = c.header().unwrap(); format!("{:?} {:?}", h.format_string(), h.files_excluded()) }, expect: "Some(\"https://www.debian.org/doc/packaging-manuals/copyright-format/1.0/\") Some([\"vendor/*\", \"*.min.js\"])" },
        Read { what: "copyright::FilesParagraph::files + copyright lines + license", text: "Format: x\n\nFiles: src/* debian/*\n doc/?\nCopyright: 2019 A\n 2020 B\nLicense: GPL-2+\n", read: |d| { let c = cp(d); let f = c.iter_files().next().unwrap(); format!("{:?} {:?} {:?}", f.files(), f.copyright(), f.license()) }, expect: "[\"src/*\", \"debian/*\", \"doc/?\"] [\"2019 A\", \"2020 B\"] Some(Name(\"GPL-2+\"))" },
        Read { what: "copyright::LicenseParagraph name/text", text: "Format: x\n\nLicense: MIT\n Permission\n .\n more\n", read: |d| { let c = cp(d); let l = c.iter_licenses().next().unwrap(); format!("{:?} {:?}", l.name(), l.text()) }, expect: "Some(\"MIT\") Some(\"Permission\\n.\\nmore\")" },
        Read { what: "dep3::PatchHeader description first line / long", text: "Description: short one\n long a\n .\n long b\nAuthor: A <a@e.org>\n", read: |d| { let h = dp(d); format!("{:?} {:?} {:?}", h.description(), h.long_description(), h.author()) }, expect: "Some(\"short one\") Some(\"long a\\n.\\nlong b\") Some(\"A <a@e.org>\")" },
        Read { what: "dep3::PatchHeader From/Subject spelling", text: "From: A <a@e.org>\nSubject: short one\n long a\n", read: |d| { let h = dp(d); format!("{:?} {:?} {:?}", h.author(), h.description(), h.long_description()) }, expect: "Some(\"A <a@e.org>\") Some(\"short one\") Some(\"long a\")" },
        Read { what: "dep3::PatchHeader reviewed_by (DEP-3 spelling Reviewed-by)", text: "Description: x\nReviewed-by: R1 <r1@e.org>\nReviewed-by: R2 <r2@e.org>\n", read: |d| format!("{:?}", dp(d).reviewed_by()), expect: "[\"R1 <r1@e.org>\", \"R2 <r2@e.org>\"]" },
        Read { what: "dep3::PatchHeader bugs", text: "Description: x\nBug: https://e.org/1\nBug-Debian: http://bugs.debian.org/2\n", read: |d| { let h = dp(d); format!("{:?} {:?}", h.bugs().collect::<Vec<_>>(), h.vendor_bugs("Debian").collect::<Vec<_>>()) }, expect: "[(None, \"https://e.org/1\"), (Some(\"Debian\"), \"http://bugs.debian.org/2\")] [\"http://bugs.debian.org/2\"]" },
        Read { what: "dep3::PatchHeader origin/forwarded/last_update/applied_upstream", text: "Origin: upstream, commit:abc\nForwarded: not-needed\nLast-Update: 2006-12-21\nApplied-Upstream: 1.2\n", read: |d| { let h = dp(d); format!("{:?} {:?} {:?} {:?}", h.origin(), h.forwarded(), h.last_update(), h.applied_upstream()) }, expect: "Some((Some(Upstream), Commit(\"abc\"))) Some(NotNeeded) Some(2006-12-21) Some(Other(\"1.2\"))" },
    ]
}

fn read_lane(ctx: &mut Ctx, idx: u64) {
    let rs = reads();
    let rd = &rs[idx as usize];
    let res = guard(rd.text.len() * 4 + 4096, || Deb822::from_str(rd.text).map(|d| (rd.read)(&d)));
    match res {
        Err(f) => ctx.violation(&format!("{}|{}|read", f.class(), rd.what), json!({"text": rd.text, "failure": f.json()})),
        Ok(Err(e)) => ctx.harness_error("read-side text rejected", json!({"text": rd.text, "error": e.to_string()})),
        Ok(Ok(got)) => {
            if got != rd.expect {
                ctx.violation(&format!("wrong-reading|{}|read", rd.what), json!({"text": rd.text, "expected": rd.expect, "got": got}));
            }
        }
    }
    ctx.distinct_exact += 1;
    ctx.sample(|| json!({"getter": rd.what, "text": rd.text, "expected": rd.expect}));
}

/// a control file's source paragraph and binary paragraphs are found by their Source and Package fields,
/// wherever they stand in the file
fn selection_lane(ctx: &mut Ctx, idx: u64) {
    let mut r = ctx.rng();
    let mut text = super::c07::gen_control(&mut r, idx % 4 == 0);
    // sometimes a leading paragraph of neither kind, and leading comments
    if r.chance(1, 5) {
        text = format!("X-Note: not a package\n\n{}", text);
    }
    if r.chance(1, 5) {
        text = format!("# leading comment\n\n{}", text);
    }
    // model from the independent line scanner
    let Some(sc) = crate::model::read_wellformed(&text) else {
        ctx.count("skipped:not-scannable");
        return;
    };
    let paras = crate::model::content(&sc);
    let want_source = paras.iter().find(|p| p.iter().any(|(k, _)| k == "Source")).and_then(|p| p.iter().find(|(k, _)| k == "Source").map(|(_, v)| v.clone()));
    let want_bins: Vec<Option<String>> = paras.iter().filter(|p| p.iter().any(|(k, _)| k == "Package")).map(|p| p.iter().find(|(k, _)| k == "Package").map(|(_, v)| v.clone())).collect();
    let res = guard(text.len() * 4 + 1024, || {
        control::Control::from_str(&text).map(|c| (c.source().and_then(|s| s.name()), c.binaries().map(|b| b.name()).collect::<Vec<_>>(), c.source().map(|s| s.as_deb822().items().count())))
    });
    match res {
        Err(f) => ctx.violation(&format!("{}|Control::source/binaries|selection", f.class()), json!({"input": clip(&text), "failure": f.json()})),
        Ok(Err(_)) => ctx.count("skipped:input-rejected"),
        Ok(Ok((src, bins, nfields))) => {
            if src != want_source {
                ctx.violation("wrong-source-paragraph|Control::source|selection", json!({"input": clip(&text), "expected": want_source, "got": src}));
            } else if bins != want_bins {
                ctx.violation("wrong-binary-paragraphs|Control::binaries|selection", json!({"input": clip(&text), "expected": want_bins, "got": bins}));
            } else {
                let want_n = paras.iter().find(|p| p.iter().any(|(k, _)| k == "Source")).map(|p| p.len());
                if nfields != want_n {
                    ctx.violation("source-paragraph-content|Control::source|selection", json!({"input": clip(&text), "expected_fields": want_n, "got": nfields}));
                }
            }
        }
    }
    ctx.nontrivial(text.as_bytes());
    ctx.sample(|| json!({"input": clip(&text), "source": want_source, "binaries": want_bins}));
}
