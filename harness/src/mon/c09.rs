//! C09 — the lossless relationship-field reader reproduces every input
//! byte-for-byte; strict succeeds exactly when relaxed (no substvars) is clean.
use crate::gen;
use crate::relgen::{self, rel_shape, ROpts};
use crate::rt::{clip, guard, Ctx, Lane};
use debian_control::lossless::relations::{Entry, Relation, Relations};
use serde_json::json;
use std::str::FromStr;

pub fn lanes() -> Vec<Lane> {
    vec![
        Lane { name: "sweep", count: |c| gen::sweep_count(23, if c.thorough() { 6 } else { 5 }), run: sweep },
        Lane { name: "gen", count: |c| if c.thorough() { 300_000 } else { 15_000 }, run: gen_lane },
        Lane { name: "mutated", count: |c| if c.thorough() { 1_000_000 } else { 60_000 }, run: mutated_lane },
    ]
}

pub fn check_text(ctx: &mut Ctx, s: &str, hash_it: bool) {
    let shape = rel_shape(s);
    let mut clean_false = None;
    for allow in [false, true] {
        let r = guard(s.len(), || {
            let (rel, errs) = Relations::parse_relaxed(s, allow);
            (rel.to_string(), errs.len())
        });
        let op = if allow { "parse_relaxed(true)" } else { "parse_relaxed(false)" };
        match r {
            Err(f) => {
                ctx.violation(&format!("{}|{}|{}", f.class(), op, shape), json!({"input": clip(s), "failure": f.json()}));
                return;
            }
            Ok((printed, nerr)) => {
                if printed != s {
                    ctx.violation(&format!("roundtrip-mismatch|{}|{}", op, shape), json!({"input": clip(s), "printed": clip(&printed)}));
                }
                if !allow {
                    clean_false = Some(nerr == 0);
                }
                ctx.count(if nerr == 0 { "clean" } else { "with-errors" });
            }
        }
    }
    let strict = guard(s.len(), || Relations::from_str(s).map(|r| r.to_string()));
    match strict {
        Err(f) => ctx.violation(&format!("{}|from_str|{}", f.class(), shape), json!({"input": clip(s), "failure": f.json()})),
        Ok(Ok(p)) => {
            if clean_false == Some(false) {
                ctx.violation(&format!("strict-ok-but-relaxed-errors|from_str|{}", shape), json!({"input": clip(s)}));
            }
            if p != s {
                ctx.violation(&format!("roundtrip-mismatch|from_str|{}", shape), json!({"input": clip(s), "printed": clip(&p)}));
            }
        }
        Ok(Err(_)) => {
            if clean_false == Some(true) {
                ctx.violation(&format!("strict-err-but-relaxed-clean|from_str|{}", shape), json!({"input": clip(s)}));
            }
        }
    }
    let e = guard(s.len(), || Entry::from_str(s).ok().map(|e| e.to_string()));
    match e {
        Err(f) => ctx.violation(&format!("{}|Entry::from_str|{}", f.class(), shape), json!({"input": clip(s), "failure": f.json()})),
        Ok(Some(p)) => {
            ctx.count("entry-accepted");
            if !s.contains(&p) {
                ctx.violation(&format!("not-a-substring|Entry::from_str|{}", shape), json!({"input": clip(s), "printed": clip(&p)}));
            }
            if clean_false == Some(false) {
                ctx.violation(&format!("accepted-but-relaxed-errors|Entry::from_str|{}", shape), json!({"input": clip(s)}));
            }
        }
        Ok(None) => {}
    }
    let e = guard(s.len(), || Relation::from_str(s).ok().map(|e| e.to_string()));
    match e {
        Err(f) => ctx.violation(&format!("{}|Relation::from_str|{}", f.class(), shape), json!({"input": clip(s), "failure": f.json()})),
        Ok(Some(p)) => {
            ctx.count("relation-accepted");
            if !s.contains(&p) {
                ctx.violation(&format!("not-a-substring|Relation::from_str|{}", shape), json!({"input": clip(s), "printed": clip(&p)}));
            }
        }
        Ok(None) => {}
    }
    ctx.count("evals");
    let nontrivial = s.chars().count() >= 3;
    if nontrivial {
        if hash_it {
            ctx.nontrivial(s.as_bytes());
        } else {
            ctx.distinct_exact += 1;
        }
    }
}

fn sweep(ctx: &mut Ctx, idx: u64) {
    let mut s = String::new();
    gen::sweep_string(&gen::REL_ALPHABET, idx, &mut s);
    check_text(ctx, &s, false);
    if idx % 100_003 == 9 {
        ctx.sample(|| json!({"input": s}));
    }
}

fn gen_lane(ctx: &mut Ctx, idx: u64) {
    let mut r = ctx.rng();
    let o = ROpts { substvars: idx % 2 == 0, inner_newlines: idx % 4 < 2, ..ROpts::default() };
    let g = relgen::gen_field(&mut r, &o);
    let t = g.text;
    check_text(ctx, &t, true);
    let bounds: Vec<usize> = t.char_indices().map(|(i, _)| i).collect();
    for &b in &bounds {
        check_text(ctx, &t[..b], true);
        ctx.count("prefixes");
        let c = t[b..].chars().next().unwrap();
        if "()[]<>{}$,|:!".contains(c) {
            let mut m = t[..b].to_string();
            m.push_str(&t[b + c.len_utf8()..]);
            check_text(ctx, &m, true);
            ctx.count("token-deletions");
        }
    }
    ctx.sample(|| json!({"input": clip(&t), "features": g.features}));
}

fn mutated_lane(ctx: &mut Ctx, idx: u64) {
    let mut r = ctx.rng();
    let o = ROpts { substvars: idx % 2 == 0, ..ROpts::default() };
    let g = relgen::gen_field(&mut r, &o);
    let other = relgen::gen_field(&mut r, &o).text;
    let mut t = g.text;
    let mut muts = vec![];
    for _ in 0..r.range(1, 3) {
        // mutate with relation-alphabet insertions as well
        if r.chance(1, 3) {
            let chars: Vec<char> = t.chars().collect();
            let i = r.below(chars.len() + 1);
            let mut s: String = chars[..i].iter().collect();
            s.push_str(r.pick_s(&gen::REL_ALPHABET));
            s.extend(chars[i..].iter());
            t = s;
            muts.push("insert-rel-class");
        } else {
            let (m, n) = gen::mutate(&mut r, &t, &other);
            t = m;
            muts.push(n);
        }
    }
    check_text(ctx, &t, true);
    ctx.sample(|| json!({"input": clip(&t), "mutations": muts}));
}
