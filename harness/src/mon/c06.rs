//! C06 — lossy and lossless deb822 readers agree on content; both accept
//! every well-formed document.
use crate::gen::{self, GOpts};
use crate::model::deb_shape;
use crate::rt::{clip, guard, Ctx, Lane};
use serde_json::json;
use std::str::FromStr;

pub fn lanes() -> Vec<Lane> {
    vec![
        Lane { name: "sweep", count: |c| gen::sweep_count(16, if c.thorough() { 7 } else { 6 }), run: sweep },
        Lane { name: "gen", count: |c| if c.thorough() { 1_000_000 } else { 40_000 }, run: gen_lane },
        Lane { name: "wellformed", count: |c| if c.thorough() { 1_000_000 } else { 40_000 }, run: wellformed_lane },
        Lane { name: "corpus", count: |c| if c.thorough() { 30_000 } else { 2_000 }, run: corpus_lane },
        Lane { name: "cr-line-ends", count: |c| if c.thorough() { 400_000 } else { 30_000 }, run: cr_lane },
    ]
}

/// Generated documents in which some value lines that are followed by a continuation line end in a lone carriage
/// return (both readers take CR for a line end). Whenever both accept, the comparison of C06 applies.
fn cr_lane(ctx: &mut Ctx, _idx: u64) {
    let mut r = ctx.rng();
    let d = gen::gen_doc(&mut r, &GOpts::default());
    let b = d.text.as_bytes();
    let mut t = String::with_capacity(d.text.len());
    let mut changed = 0;
    for (i, ch) in d.text.char_indices() {
        if ch == '\n' && matches!(b.get(i + 1), Some(b' ') | Some(b'\t')) && r.chance(1, 2) {
            t.push('\r');
            changed += 1;
        } else {
            t.push(ch);
        }
    }
    if changed == 0 {
        ctx.count("skipped:no-continuation-line");
        return;
    }
    if let Some((a, b)) = compare(ctx, &t, "cr-before-continuation") {
        ctx.count(if a && b { "both-accept" } else { "not-both-accept" });
    }
    ctx.nontrivial(t.as_bytes());
    ctx.sample(|| json!({"input": clip(&t), "cr_line_ends": changed}));
}

type Lines = Vec<Vec<(String, Vec<String>)>>;

fn nonblank_lines(v: &str) -> Vec<String> {
    v.split(['\n', '\r'])
        .filter(|l| !l.trim_matches([' ', '\t']).is_empty())
        .map(|l| l.to_string())
        .collect()
}

fn read_both(s: &str) -> Result<(Option<Lines>, Option<Lines>, Option<Vec<(String, Vec<String>)>>), crate::rt::Failure> {
    let a = guard(s.len(), || {
        deb822_lossless::Deb822::from_str(s).ok().map(|d| {
            d.paragraphs().map(|p| p.items().map(|(k, v)| (k, nonblank_lines(&v))).collect::<Vec<_>>()).collect::<Vec<_>>()
        })
    })?;
    let b = guard(s.len(), || {
        deb822_lossless::lossy::Deb822::from_str(s).ok().map(|d| {
            d.iter().map(|p| p.iter().map(|(k, v)| (k.to_string(), nonblank_lines(v))).collect::<Vec<_>>()).collect::<Vec<_>>()
        })
    })?;
    let c = guard(s.len(), || {
        deb822_lossless::lossy::Paragraph::from_str(s).ok().map(|p| p.iter().map(|(k, v)| (k.to_string(), nonblank_lines(v))).collect::<Vec<_>>())
    })?;
    Ok((a, b, c))
}

/// returns (lossless accepted, lossy accepted)
fn compare(ctx: &mut Ctx, s: &str, shape: &'static str) -> Option<(bool, bool)> {
    let (a, b, c) = match read_both(s) {
        Ok(x) => x,
        Err(f) => {
            ctx.violation(&format!("{}|readers|{}", f.class(), shape), json!({"input": clip(s), "failure": f.json()}));
            return None;
        }
    };
    match (&a, &b) {
        (Some(x), Some(y)) => {
            ctx.count("both-accept");
            if x != y {
                let kind = if x.len() != y.len() {
                    "paragraph-structure"
                } else if x.iter().zip(y.iter()).any(|(p, q)| p.iter().map(|f| &f.0).ne(q.iter().map(|f| &f.0))) {
                    "field-names"
                } else {
                    "value-lines"
                };
                ctx.violation(&format!("readers-disagree:{}|Deb822::from_str|{}", kind, shape), json!({"input": clip(s), "lossless": x, "lossy": y}));
            }
            // lossy::Paragraph::from_str: the single paragraph when there is exactly one
            match (&c, y.len()) {
                (Some(p), 1) => {
                    if *p != y[0] {
                        ctx.violation(&format!("readers-disagree:paragraph|lossy::Paragraph::from_str|{}", shape), json!({"input": clip(s), "paragraph": p, "document": y}));
                    }
                }
                (Some(p), n) => ctx.violation(&format!("paragraph-from-multi|lossy::Paragraph::from_str|{}", shape), json!({"input": clip(s), "paragraph": p, "paragraphs": n})),
                (None, 1) => ctx.violation(&format!("paragraph-rejected|lossy::Paragraph::from_str|{}", shape), json!({"input": clip(s)})),
                (None, _) => {}
            }
        }
        (Some(_), None) => ctx.count("only-lossless-accepts"),
        (None, Some(_)) => ctx.count("only-lossy-accepts"),
        (None, None) => ctx.count("both-reject"),
    }
    Some((a.is_some(), b.is_some()))
}

fn sweep(ctx: &mut Ctx, idx: u64) {
    let mut s = String::new();
    gen::sweep_string(&gen::DEB_ALPHABET, idx, &mut s);
    if let Some((true, true)) = compare(ctx, &s, deb_shape(&s)) {
        if s.contains(':') {
            ctx.distinct_exact += 1;
        }
    }
    if idx % 100_003 == 11 {
        ctx.sample(|| json!({"input": s}));
    }
}

fn gen_lane(ctx: &mut Ctx, _idx: u64) {
    let mut r = ctx.rng();
    let o = GOpts::default();
    let d = gen::gen_doc(&mut r, &o);
    let other = gen::gen_doc(&mut r, &o).text;
    let mut t = d.text;
    let mut muts = vec![];
    for _ in 0..r.range(1, 3) {
        let (m, n) = gen::mutate(&mut r, &t, &other);
        t = m;
        muts.push(n);
    }
    compare(ctx, &t, deb_shape(&t));
    ctx.nontrivial(t.as_bytes());
    ctx.sample(|| json!({"input": clip(&t), "mutations": muts}));
}

fn wellformed_lane(ctx: &mut Ctx, _idx: u64) {
    let mut r = ctx.rng();
    let d = gen::gen_doc(&mut r, &GOpts::default());
    let feat = super::c03::main_feature(&d.features);
    if let Some((a, b)) = compare(ctx, &d.text, feat) {
        if !a {
            ctx.violation(&format!("rejected-wellformed|Deb822::from_str|{}", feat), json!({"input": clip(&d.text)}));
        }
        if !b {
            ctx.violation(&format!("rejected-wellformed|lossy::Deb822::from_str|{}", feat), json!({"input": clip(&d.text)}));
        }
        if a && b {
            // both must also agree with the generator's model
            let expect: Lines = d.paras.iter().map(|p| p.iter().map(|f| (f.name.clone(), f.lines.clone())).collect()).collect();
            if let Ok((Some(x), _, _)) = read_both(&d.text) {
                if x != expect {
                    ctx.violation(&format!("content-mismatch|Deb822::from_str|{}", feat), json!({"input": clip(&d.text), "expected": expect, "got": x}));
                }
            }
        }
    }
    ctx.nontrivial(d.text.as_bytes());
    ctx.sample(|| json!({"input": clip(&d.text), "features": d.features}));
}

fn corpus_lane(ctx: &mut Ctx, idx: u64) {
    let c = super::c01::corpus();
    if c.is_empty() {
        ctx.count("skipped:no-corpus");
        return;
    }
    let mut r = ctx.rng();
    let (name, text) = &c[(idx as usize) % c.len()];
    let mut t = text.clone();
    if idx as usize >= c.len() {
        let other = &c[r.below(c.len())].1;
        t = gen::mutate(&mut r, &t, other).0;
    }
    compare(ctx, &t, "corpus");
    ctx.nontrivial(t.as_bytes());
    ctx.sample(|| json!({"file": name, "bytes": t.len()}));
}
