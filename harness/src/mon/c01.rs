//! C01 — the lossless deb822 reader reproduces every input byte-for-byte;
//! strict fails exactly when relaxed reports an error; read/read_relaxed agree.
use crate::gen::{self, GOpts};
use crate::model::deb_shape;
use crate::rt::{clip, guard, Ctx, Lane, Rng};
use deb822_lossless::Deb822;
use serde_json::json;
use std::str::FromStr;

pub fn lanes() -> Vec<Lane> {
    vec![
        Lane { name: "sweep", count: |c| gen::sweep_count(16, if c.thorough() { 7 } else { 6 }), run: sweep },
        Lane { name: "gen", count: |c| if c.thorough() { 1_000_000 } else { 30_000 }, run: gen_lane },
        Lane { name: "corpus", count: |c| if c.thorough() { 60_000 } else { 3_000 }, run: corpus_lane },
        Lane { name: "reader", count: |c| if c.thorough() { 200_000 } else { 10_000 }, run: reader_lane },
    ]
}

/// token kinds ~ crude non-triviality: >=2 lines, or a syntax error, or >=3 distinct classes
fn nontrivial(s: &str, nerr: usize) -> bool {
    if nerr > 0 || s.matches('\n').count() >= 2 {
        return true;
    }
    let mut classes = 0u32;
    for c in s.chars() {
        classes |= 1 << deb822_lossless::verif::char_class(c);
    }
    classes.count_ones() >= 3
}

/// The oracle: byte equality and boolean equivalence, nothing else.
pub fn check_text(ctx: &mut Ctx, s: &str, hash_it: bool) -> Option<usize> {
    let relaxed = guard(s.len(), || {
        let (d, e) = Deb822::from_str_relaxed(s);
        (d.to_string(), e.len())
    });
    let (printed, nerr) = match relaxed {
        Ok(x) => x,
        Err(f) => {
            ctx.violation(
                &format!("{}|from_str_relaxed|{}", f.class(), deb_shape(s)),
                json!({"input": clip(s), "failure": f.json()}),
            );
            return None;
        }
    };
    if printed != s {
        ctx.violation(
            &format!("roundtrip-mismatch|from_str_relaxed|{}", deb_shape(s)),
            json!({"input": clip(s), "printed": clip(&printed)}),
        );
    }
    let strict = guard(s.len(), || Deb822::from_str(s).map(|d| d.to_string()));
    match strict {
        Err(f) => {
            ctx.violation(
                &format!("{}|from_str|{}", f.class(), deb_shape(s)),
                json!({"input": clip(s), "failure": f.json()}),
            );
        }
        Ok(Ok(p)) => {
            if nerr != 0 {
                ctx.violation(
                    &format!("strict-ok-but-relaxed-errors|from_str|{}", deb_shape(s)),
                    json!({"input": clip(s), "relaxed_errors": nerr}),
                );
            }
            if p != s {
                ctx.violation(
                    &format!("roundtrip-mismatch|from_str|{}", deb_shape(s)),
                    json!({"input": clip(s), "printed": clip(&p)}),
                );
            }
        }
        Ok(Err(_)) => {
            if nerr == 0 {
                ctx.violation(
                    &format!("strict-err-but-relaxed-clean|from_str|{}", deb_shape(s)),
                    json!({"input": clip(s)}),
                );
            }
        }
    }
    ctx.count("evals");
    ctx.count(if nerr == 0 { "accepted" } else { "with-errors" });
    ctx.count(match nerr {
        0 => "errs:0",
        1 => "errs:1",
        2..=3 => "errs:2-3",
        _ => "errs:4+",
    });
    if nontrivial(s, nerr) {
        if hash_it {
            ctx.nontrivial(s.as_bytes());
        } else {
            ctx.distinct_exact += 1;
        }
    }
    Some(nerr)
}

fn sweep(ctx: &mut Ctx, idx: u64) {
    let mut s = String::new();
    gen::sweep_string(&gen::DEB_ALPHABET, idx, &mut s);
    check_text(ctx, &s, false);
    if idx % 100_003 == 7 {
        ctx.sample(|| json!({"input": s}));
    }
}

fn gen_text(r: &mut Rng) -> (String, Vec<&'static str>) {
    let o = GOpts::default();
    let d = gen::gen_doc(r, &o);
    let mut t = d.text;
    let mut muts = vec![];
    let nm = match r.below(4) {
        0 => 0,
        1 | 2 => 1,
        _ => r.range(2, 4),
    };
    if nm > 0 {
        let other = gen::gen_doc(r, &o).text;
        for _ in 0..nm {
            let (m, name) = gen::mutate(r, &t, &other);
            t = m;
            muts.push(name);
        }
    }
    (t, muts)
}

fn gen_lane(ctx: &mut Ctx, _idx: u64) {
    let mut r = ctx.rng();
    let (t, muts) = gen_text(&mut r);
    for m in &muts {
        ctx.count(&format!("mut:{}", m));
    }
    if muts.is_empty() {
        ctx.count("mut:none");
    }
    let n = check_text(ctx, &t, true);
    ctx.sample(|| json!({"input": clip(&t), "mutations": muts, "relaxed_errors": n}));
}

pub fn corpus() -> &'static Vec<(String, String)> {
    use std::sync::OnceLock;
    static C: OnceLock<Vec<(String, String)>> = OnceLock::new();
    C.get_or_init(|| {
        let mut v = vec![];
        for p in [
            "/repo/debian-control/src/testdata/InRelease",
            "/repo/debian-control/src/testdata/Release",
            "/repo/debian-control/testdata/ruff.buildinfo",
        ] {
            if let Ok(s) = std::fs::read_to_string(p) {
                v.push((p.to_string(), s));
            }
        }
        if let Ok(s) = std::fs::read_to_string("/repo/bench/Sources") {
            // paragraph-aligned chunks of ~8 KiB
            let mut start = 0;
            let mut k = 0;
            while start < s.len() && k < 300 {
                let mut end = (start + 8192).min(s.len());
                while !s.is_char_boundary(end) {
                    end += 1;
                }
                let end = s[end..].find("\n\n").map(|i| end + i + 2).unwrap_or(s.len());
                v.push((format!("/repo/bench/Sources#{}", k), s[start..end].to_string()));
                start = end;
                k += 1;
            }
        }
        v
    })
}

fn corpus_lane(ctx: &mut Ctx, idx: u64) {
    let c = corpus();
    if c.is_empty() {
        ctx.count("skipped:no-corpus");
        return;
    }
    let mut r = ctx.rng();
    let (name, text) = &c[(idx as usize) % c.len()];
    let round = idx as usize / c.len();
    let mut t = text.clone();
    let mut muts = vec![];
    if round > 0 {
        let other = &c[r.below(c.len())].1;
        for _ in 0..r.range(1, 3) {
            let (m, n) = gen::mutate(&mut r, &t, other);
            t = m;
            muts.push(n);
        }
    }
    let n = check_text(ctx, &t, true);
    ctx.sample(|| json!({"file": name, "bytes": t.len(), "mutations": muts, "relaxed_errors": n}));
}

/// Fault-injecting reader: short reads with boundaries inside multi-byte
/// characters, `Interrupted` errors, optional hard error.
pub struct ChunkReader {
    pub data: Vec<u8>,
    pub pos: usize,
    pub rng: Rng,
    pub max_chunk: usize,
    pub interrupts: bool,
    pub hard_error_at: Option<usize>,
    pub reads: u64,
}

impl std::io::Read for ChunkReader {
    fn read(&mut self, buf: &mut [u8]) -> std::io::Result<usize> {
        self.reads += 1;
        if let Some(at) = self.hard_error_at {
            if self.pos >= at {
                return Err(std::io::Error::new(std::io::ErrorKind::Other, "injected hard error"));
            }
        }
        if self.interrupts && self.rng.chance(1, 4) {
            return Err(std::io::Error::new(std::io::ErrorKind::Interrupted, "injected EINTR"));
        }
        let rest = self.data.len() - self.pos;
        if rest == 0 || buf.is_empty() {
            return Ok(0);
        }
        let n = self.rng.range(1, self.max_chunk.max(1)).min(rest).min(buf.len());
        buf[..n].copy_from_slice(&self.data[self.pos..self.pos + n]);
        self.pos += n;
        Ok(n)
    }
}

fn reader_lane(ctx: &mut Ctx, idx: u64) {
    let mut r = ctx.rng();
    let (t, _) = gen_text(&mut r);
    let mode = idx % 8;
    let mut data = t.clone().into_bytes();
    let mut invalid = false;
    if mode == 6 && !data.is_empty() {
        // corrupt into invalid UTF-8
        let i = r.below(data.len());
        data[i] = 0xFF;
        invalid = true;
    }
    let mk = |r: &mut Rng, data: &Vec<u8>| ChunkReader {
        data: data.clone(),
        pos: 0,
        rng: Rng::new(r.next()),
        max_chunk: [1, 2, 3, 7, 64, 4096][r.below(6)],
        interrupts: mode % 2 == 1,
        hard_error_at: if mode == 7 { Some(r.below(data.len() + 1)) } else { None },
        reads: 0,
    };
    let expect_io_err = invalid || mode == 7;
    let strs = guard(t.len(), || {
        let (d, e) = Deb822::from_str_relaxed(&t);
        (d.to_string(), e.len(), Deb822::from_str(&t).is_ok())
    });
    let Ok((_, nerr, strict_ok)) = strs else {
        ctx.count("skipped:str-reader-failed");
        return;
    };
    // read_relaxed
    let rd = mk(&mut r, &data);
    let res = guard(t.len(), move || Deb822::read_relaxed(rd).map(|(d, e)| (d.to_string(), e.len())));
    let shape = if invalid { "invalid-utf8" } else if mode == 7 { "hard-io-error" } else { "chunked" };
    match res {
        Err(f) => ctx.violation(&format!("{}|read_relaxed|{}", f.class(), shape), json!({"input": clip(&t), "failure": f.json()})),
        Ok(Err(_)) => {
            if !expect_io_err {
                ctx.violation(&format!("unexpected-io-error|read_relaxed|{}", shape), json!({"input": clip(&t)}));
            } else {
                ctx.count("io-error-reported");
            }
        }
        Ok(Ok((p, n))) => {
            if expect_io_err {
                ctx.violation(&format!("io-error-swallowed|read_relaxed|{}", shape), json!({"input": clip(&t), "printed": clip(&p)}));
            } else if p != t || n != nerr {
                ctx.violation(&format!("reader-disagrees|read_relaxed|{}", shape), json!({"input": clip(&t), "printed": clip(&p), "errors": [n, nerr]}));
            }
        }
    }
    // read (strict)
    let rd = mk(&mut r, &data);
    let res = guard(t.len(), move || Deb822::read(rd).map(|d| d.to_string()));
    match res {
        Err(f) => ctx.violation(&format!("{}|read|{}", f.class(), shape), json!({"input": clip(&t), "failure": f.json()})),
        Ok(Err(deb822_lossless::Error::IoError(_))) => {
            if !expect_io_err {
                ctx.violation(&format!("unexpected-io-error|read|{}", shape), json!({"input": clip(&t)}));
            } else {
                ctx.count("io-error-reported");
            }
        }
        Ok(Err(deb822_lossless::Error::ParseError(_))) => {
            if expect_io_err {
                ctx.violation(&format!("io-error-swallowed|read|{}", shape), json!({"input": clip(&t)}));
            } else if strict_ok {
                ctx.violation(&format!("reader-disagrees|read|{}", shape), json!({"input": clip(&t), "read": "parse error", "from_str": "ok"}));
            }
        }
        Ok(Ok(p)) => {
            if expect_io_err {
                ctx.violation(&format!("io-error-swallowed|read|{}", shape), json!({"input": clip(&t)}));
            } else if !strict_ok || p != t {
                ctx.violation(&format!("reader-disagrees|read|{}", shape), json!({"input": clip(&t), "printed": clip(&p), "from_str_ok": strict_ok}));
            }
        }
    }
    ctx.count(&format!("reader-mode:{}", mode));
    ctx.nontrivial(format!("{}|{}", mode, t).as_bytes());
    ctx.sample(|| json!({"input": clip(&t), "mode": mode, "shape": shape}));
    let _ = FromStr::from_str as fn(&str) -> Result<Deb822, _>;
}
