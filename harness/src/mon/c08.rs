//! C08 — lossy deb822 values print to text that both readers accept and that
//! reads back equal; lossy paragraph edits follow a list model.
use crate::gen::{self, GOpts};
use crate::rt::{clip, guard, Ctx, Lane, Rng};
use deb822_lossless::lossy;
use serde_json::json;
use std::str::FromStr;

pub fn lanes() -> Vec<Lane> {
    vec![
        Lane { name: "roundtrip", count: |c| if c.thorough() { 2_000_000 } else { 300_000 }, run: roundtrip_lane },
        Lane { name: "catalog", count: |_| (CAT_FIELDS * (1 + CAT_FIELDS)) * (1 + CAT_FIELDS * (1 + CAT_FIELDS)), run: catalog_lane },
        Lane { name: "edits", count: |c| if c.thorough() { 1_000_000 } else { 150_000 }, run: edits_lane },
    ]
}

type Doc = Vec<Vec<(String, String)>>;

/// canonical lossy value: lines joined by '\n'; first line may be empty
fn gen_value(r: &mut Rng, o: &GOpts, uniq: &mut u32) -> String {
    match r.below(8) {
        0 => String::new(),
        1 => {
            let mut v = String::new();
            for _ in 0..r.range(1, 3) {
                v.push('\n');
                v.push_str(&gen::gen_line(r, o, uniq, true));
            }
            v
        }
        2..=4 => gen::gen_line(r, o, uniq, false),
        _ => {
            let mut v = gen::gen_line(r, o, uniq, false);
            for _ in 0..r.range(1, 3) {
                v.push('\n');
                v.push_str(&gen::gen_line(r, o, uniq, true));
            }
            v
        }
    }
}

fn value_shape(doc: &Doc) -> &'static str {
    let mut shape = "plain";
    for p in doc {
        for (_, v) in p {
            if v.is_empty() {
                shape = "empty-value";
            } else if v.starts_with('\n') {
                return "empty-first-line";
            } else if v.contains('\n') && shape == "plain" {
                shape = "multi-line";
            }
        }
    }
    shape
}

fn build(doc: &Doc) -> (Vec<lossy::Paragraph>, String) {
    let paras: Vec<lossy::Paragraph> = doc.iter().map(|p| p.iter().cloned().collect()).collect();
    let text = paras.iter().map(|p| p.to_string()).collect::<Vec<_>>().join("\n");
    (paras, text)
}

fn check_doc(ctx: &mut Ctx, doc: &Doc) -> bool {
    let shape = value_shape(doc);
    let r = guard(4096, || {
        let (paras, text) = build(doc);
        let re = lossy::Deb822::from_str(&text);
        let (re_paras, re_text) = match &re {
            Ok(d) => (Some(d.iter().cloned().collect::<Vec<_>>()), Some(d.to_string())),
            Err(_) => (None, None),
        };
        let ll = deb822_lossless::Deb822::from_str(&text)
            .ok()
            .map(|d| d.paragraphs().map(|p| p.items().collect::<Vec<_>>()).collect::<Vec<_>>());
        let single = if paras.len() == 1 { Some(lossy::Paragraph::from_str(&text).ok()) } else { None };
        (paras, text, re_paras, re_text, ll, single)
    });
    let (paras, text, re_paras, re_text, ll, single) = match r {
        Ok(x) => x,
        Err(f) => {
            ctx.violation(&format!("{}|print+reparse|{}", f.class(), shape), json!({"doc": doc, "failure": f.json()}));
            return false;
        }
    };
    let Some(re_paras) = re_paras else {
        ctx.violation(&format!("printed-rejected|lossy::Deb822::from_str|{}", shape), json!({"doc": doc, "printed": clip(&text)}));
        return false;
    };
    if re_paras != paras {
        ctx.violation(&format!("reparse-unequal|lossy::Deb822::from_str|{}", shape), json!({"doc": doc, "printed": clip(&text), "reparsed": format!("{:?}", re_paras)}));
        return false;
    }
    if re_text.as_deref() != Some(text.as_str()) {
        ctx.violation(&format!("document-print-differs|lossy::Deb822::to_string|{}", shape), json!({"doc": doc, "joined": clip(&text), "printed": re_text}));
        return false;
    }
    // separated by exactly one blank line: number of blank lines = paragraphs - 1 (values have no blank lines)
    let blank = text.split('\n').filter(|l| l.is_empty()).count().saturating_sub(if text.ends_with('\n') { 1 } else { 0 });
    if !paras.is_empty() && blank != paras.len() - 1 {
        ctx.violation(&format!("separator-count|lossy::Deb822::to_string|{}", shape), json!({"doc": doc, "printed": clip(&text), "blank_lines": blank}));
        return false;
    }
    match ll {
        None => {
            ctx.violation(&format!("printed-rejected|Deb822::from_str|{}", shape), json!({"doc": doc, "printed": clip(&text)}));
            return false;
        }
        Some(items) => {
            // the lossless reader joins non-empty lines: compare up to an empty first line
            let want: Doc = doc.iter().map(|p| p.iter().map(|(k, v)| (k.clone(), v.trim_start_matches('\n').to_string())).collect()).collect();
            if items != want {
                ctx.violation(&format!("lossless-content-differs|Deb822::from_str|{}", shape), json!({"doc": doc, "printed": clip(&text), "lossless": items}));
                return false;
            }
        }
    }
    // the other ways of building and taking apart the same values agree with the vector of (name, value) pairs
    let api = guard(4096, || {
        let re = lossy::Deb822::from_str(&text).ok()?;
        let mut ok = re.len() == doc.len() && re.is_empty() == doc.is_empty();
        for (p, m) in paras.iter().zip(doc.iter()) {
            ok &= lossy::Paragraph::from(m.clone()) == *p;
            ok &= p.clone().into_iter().collect::<Vec<_>>() == *m;
            ok &= p.iter().map(|(k, v)| (k.to_string(), v.to_string())).collect::<Vec<_>>() == *m;
            ok &= p.len() == m.len() && p.is_empty() == m.is_empty();
            // a value changed through iter_mut is the value a later get/iter reports; names and order stay
            let mut q = p.clone();
            for (i, (_, v)) in q.iter_mut().enumerate() {
                if i % 2 == 0 {
                    v.push('x');
                }
            }
            let want: Vec<(String, String)> = m.iter().enumerate().map(|(i, (k, v))| (k.clone(), if i % 2 == 0 { format!("{}x", v) } else { v.clone() })).collect();
            ok &= q.iter().map(|(k, v)| (k.to_string(), v.to_string())).collect::<Vec<_>>() == want;
        }
        let mut d2 = re.clone();
        for q in d2.iter_mut() {
            q.insert("Zz-Added", "1");
        }
        ok &= d2.iter().zip(paras.iter()).all(|(a, b)| a.len() == b.len() + 1 && a.get("Zz-Added").as_deref() == Some("1"));
        ok &= Vec::<lossy::Paragraph>::from(re.clone()) == paras;
        ok &= re.into_iter().collect::<Vec<_>>() == paras;
        Some(ok)
    });
    match api {
        Ok(Some(true)) => ctx.count("constructors-and-iterators-agree"),
        Ok(_) => {
            ctx.violation(&format!("api-disagrees|lossy constructors/iterators|{}", shape), json!({"doc": doc}));
            return false;
        }
        Err(f) => {
            ctx.violation(&format!("{}|lossy constructors/iterators|{}", f.class(), shape), json!({"doc": doc, "failure": f.json()}));
            return false;
        }
    }
    if let Some(s) = single {
        if s.as_ref() != Some(&paras[0]) {
            ctx.violation(&format!("reparse-unequal|lossy::Paragraph::from_str|{}", shape), json!({"doc": doc, "printed": clip(&text)}));
            return false;
        }
    }
    true
}

fn gen_lossy_doc(r: &mut Rng) -> Doc {
    let o = GOpts::default();
    let mut uniq = 0;
    let np = r.range(1, 3);
    (0..np)
        .map(|_| {
            let nf = r.range(1, 4);
            (0..nf).map(|_| (gen::gen_name(r, &o), gen_value(r, &o, &mut uniq))).collect()
        })
        .collect()
}

fn roundtrip_lane(ctx: &mut Ctx, _idx: u64) {
    let mut r = ctx.rng();
    let doc = gen_lossy_doc(&mut r);
    let ok = check_doc(ctx, &doc);
    ctx.count(if ok { "held" } else { "violated" });
    ctx.count(&format!("shape:{}", value_shape(&doc)));
    ctx.nontrivial(format!("{:?}", doc).as_bytes());
    ctx.sample(|| json!({"doc": doc, "printed": build(&doc).1}));
}

const CAT_NAMES: [&str; 2] = ["A", "B-b"];
const CAT_VALUES: [&str; 7] = ["", "x", "x\ny", "\ny", "#h", "x:y ", "é\n."];
const CAT_FIELDS: u64 = 14;

fn cat_field(i: u64) -> (String, String) {
    (CAT_NAMES[(i % 2) as usize].to_string(), CAT_VALUES[(i / 2) as usize].to_string())
}
fn cat_para(mut i: u64) -> Vec<(String, String)> {
    // 0..14: one field; then two fields
    if i < CAT_FIELDS {
        vec![cat_field(i)]
    } else {
        i -= CAT_FIELDS;
        vec![cat_field(i % CAT_FIELDS), cat_field(i / CAT_FIELDS)]
    }
}

fn catalog_lane(ctx: &mut Ctx, idx: u64) {
    let np = CAT_FIELDS * (1 + CAT_FIELDS);
    let doc: Doc = if idx < np { vec![cat_para(idx)] } else { let j = idx - np; vec![cat_para(j % np), cat_para(j / np)] };
    let ok = check_doc(ctx, &doc);
    ctx.count(if ok { "held" } else { "violated" });
    ctx.distinct_exact += 1;
    if idx % 9973 == 1 {
        ctx.sample(|| json!({"doc": doc, "printed": build(&doc).1}));
    }
}

// field names are compared exactly: "a"/"A" and "C-c"/"C-C" are different fields
const POOL: [&str; 6] = ["A", "B", "C-c", "A1", "a", "C-C"];

fn edits_lane(ctx: &mut Ctx, _idx: u64) {
    let mut r = ctx.rng();
    let o = GOpts { name_pool: Some(&POOL), ..GOpts::default() };
    let mut uniq = 100;
    let n0 = r.below(4);
    let mut model: Vec<(String, String)> = (0..n0).map(|_| (gen::gen_name(&mut r, &o), gen_value(&mut r, &o, &mut uniq))).collect();
    let mut p: lossy::Paragraph = model.iter().cloned().collect();
    let nops = r.range(1, if ctx.thorough() { 12 } else { 6 });
    let mut log = vec![];
    for step in 0..nops {
        let name = gen::gen_name(&mut r, &o);
        let val = gen_value(&mut r, &o, &mut uniq);
        let op = ["set", "insert", "remove", "get"][r.below(4)];
        log.push(json!({"op": op, "name": name, "value": val}));
        let res = guard(1024, || {
            match op {
                "set" => p.set(&name, &val),
                "insert" => p.insert(&name, &val),
                "remove" => p.remove(&name),
                _ => {}
            }
            (p.get(&name).map(|s| s.to_string()), p.len(), p.is_empty(), p.iter().map(|(k, v)| (k.to_string(), v.to_string())).collect::<Vec<_>>())
        });
        match op {
            "set" => match model.iter_mut().find(|(k, _)| *k == name) {
                Some(f) => f.1 = val.clone(),
                None => model.push((name.clone(), val.clone())),
            },
            "insert" => model.push((name.clone(), val.clone())),
            "remove" => model.retain(|(k, _)| *k != name),
            _ => {}
        }
        ctx.count(&format!("op:{}", op));
        match res {
            Err(f) => {
                ctx.violation(&format!("{}|lossy::Paragraph::{}|-", f.class(), op), json!({"ops": log, "failure": f.json()}));
                return;
            }
            Ok((g, len, empty, items)) => {
                let want_get = model.iter().find(|(k, _)| *k == name).map(|(_, v)| v.clone());
                if items != model || g != want_get || len != model.len() || empty != model.is_empty() {
                    ctx.violation(&format!("model-mismatch|lossy::Paragraph::{}|-", op), json!({"ops": log, "step": step, "model": model, "items": items, "get": g, "len": len}));
                    return;
                }
            }
        }
    }
    // the edited paragraph still prints and reads back
    let doc: Doc = vec![model.clone()];
    if !model.is_empty() {
        check_doc(ctx, &doc);
    }
    ctx.nontrivial(format!("{:?}", log).as_bytes());
    ctx.sample(|| json!({"start_fields": n0, "ops": log, "final": model}));
}
