//! C16 — derived struct/paragraph conversions round-trip, list fields in
//! declaration order under their configured names, update only their own
//! fields, report missing/invalid fields by name, identically for both back-ends.
use crate::gen::{self, GOpts};
use crate::rt::{clip, guard, Ctx, Lane, Rng};
use crate::typed::{self, items_lossless, items_lossy, Typed, KINDS};
use deb822_lossless::lossy;
use deb822_lossless::{FromDeb822, FromDeb822Paragraph, Paragraph, ToDeb822, ToDeb822Paragraph};
use debian_control::fields::Priority;
use serde_json::{json, Value};
use std::str::FromStr;

pub fn lanes() -> Vec<Lane> {
    vec![
        Lane { name: "test-structs", count: |c| if c.thorough() { 600_000 } else { 100_000 }, run: test_struct_lane },
        Lane { name: "shipped", count: |c| if c.thorough() { 600_000 } else { 100_000 }, run: shipped_lane },
        Lane { name: "dep3-values", count: |_| 5 * 4, run: dep3_values_lane },
        Lane { name: "errors", count: |_| KINDS.iter().map(|k| 2 * k.fields.len() as u64).sum::<u64>() + 40, run: errors_lane },
    ]
}

// ---------------------------------------------------------------- harness-local structs

fn ser_yesno(b: &bool) -> String {
    if *b { "yes".into() } else { "no".into() }
}
fn de_yesno(s: &str) -> Result<bool, String> {
    match s {
        "yes" => Ok(true),
        "no" => Ok(false),
        _ => Err(format!("not yes/no: {}", s)),
    }
}
fn ser_list(v: &[String]) -> String {
    v.join("\n")
}
fn de_list(s: &str) -> Result<Vec<String>, String> {
    Ok(s.split('\n').map(|x| x.to_string()).collect())
}

/// every field shape the macro distinguishes: {mandatory, optional} x {default key, renamed}
/// x {default, custom codec} over String / integer / bool / list / enum
#[derive(FromDeb822, ToDeb822, Debug, Clone, PartialEq)]
struct Shapes {
    name: String,
    #[deb822(field = "Count")]
    count: u32,
    #[deb822(serialize_with = ser_yesno, deserialize_with = de_yesno)]
    flag: bool,
    #[deb822(field = "Item-List", serialize_with = ser_list, deserialize_with = de_list)]
    list: Vec<String>,
    prio: Priority,
    opt: Option<String>,
    #[deb822(field = "X-Opt-Num")]
    opt_num: Option<u64>,
    #[deb822(serialize_with = ser_yesno, deserialize_with = de_yesno)]
    opt_flag: Option<bool>,
    #[deb822(field = "Opt-List", serialize_with = ser_list, deserialize_with = de_list)]
    opt_list: Option<Vec<String>>,
    #[deb822(field = "Opt-Prio")]
    opt_prio: Option<Priority>,
    #[deb822(field = "Signed")]
    signed: i64,
    /// a field whose name is a keyword: its default key is the name, `type`
    r#type: Option<String>,
}

const SHAPES_KEYS: [(&str, bool); 12] = [
    ("name", true), ("Count", true), ("flag", true), ("Item-List", true), ("prio", true), ("opt", false), ("X-Opt-Num", false),
    ("opt_flag", false), ("Opt-List", false), ("Opt-Prio", false), ("Signed", true), ("type", false),
];

fn gen_text(r: &mut Rng, uniq: &mut u32) -> String {
    let o = GOpts::default();
    let n = r.range(1, 3);
    let mut lines = vec![gen::gen_line(r, &o, uniq, false)];
    for _ in 1..n {
        lines.push(gen::gen_line(r, &o, uniq, true));
    }
    if r.chance(1, 10) {
        return String::new();
    }
    lines.join("\n")
}

fn gen_shapes(r: &mut Rng) -> Shapes {
    let mut u = 0;
    let prios = [Priority::Required, Priority::Important, Priority::Standard, Priority::Optional, Priority::Extra];
    Shapes {
        name: gen_text(r, &mut u),
        count: *r.pick(&[0, 1, 42, u32::MAX]),
        flag: r.chance(1, 2),
        list: (0..r.range(1, 3)).map(|i| format!("item{} x", i)).collect(),
        prio: r.pick(&prios).clone(),
        opt: if r.chance(1, 2) { Some(gen_text(r, &mut u)) } else { None },
        opt_num: if r.chance(1, 2) { Some(*r.pick(&[0, 7, u64::MAX])) } else { None },
        opt_flag: if r.chance(1, 2) { Some(r.chance(1, 2)) } else { None },
        opt_list: if r.chance(1, 2) { Some(vec!["a".into(), "b c".into()]) } else { None },
        opt_prio: if r.chance(1, 2) { Some(r.pick(&prios).clone()) } else { None },
        signed: *r.pick(&[0, -1, i64::MIN, i64::MAX]),
        r#type: if r.chance(1, 2) { Some(["deb", "udeb"][r.below(2)].to_string()) } else { None },
    }
}

/// a prior paragraph for `update_paragraph`: foreign fields, comments, stale own fields
fn gen_prior(r: &mut Rng, own: &[(&str, bool)]) -> (String, Vec<String>) {
    let mut t = String::new();
    let mut foreign = vec![];
    let mut n = 0;
    for (k, _) in own {
        if r.chance(1, 4) {
            t.push_str(&format!("# about x{}\n", n));
        }
        if r.chance(1, 3) {
            let name = format!("X-Foreign-{}", n);
            t.push_str(&format!("{}:  keep {}\n   me\n", name, n));
            foreign.push(name);
            n += 1;
        }
        if r.chance(1, 2) {
            t.push_str(&format!("{}: stale\n", k));
        }
        if r.chance(1, 6) {
            // names are compared exactly: the other-case spelling of an own key is a foreign field
            let name: String = k.chars().map(|c| if c.is_ascii_lowercase() { c.to_ascii_uppercase() } else { c.to_ascii_lowercase() }).collect();
            if name != *k && !own.iter().any(|(o, _)| *o == name) && !foreign.contains(&name) {
                t.push_str(&format!("{}: other case {}\n", name, n));
                foreign.push(name);
            }
        }
    }
    let name = format!("X-Foreign-{}", n);
    t.push_str(&format!("# trailing\n{}:\tlast\n", name));
    foreign.push(name);
    (t, foreign)
}

fn fail(ctx: &mut Ctx, kind: &str, who: &str, shape: &str, info: Value) {
    ctx.violation(&format!("{}|{}|{}", kind, who, shape), info);
}

/// the checks shared by harness-local and shipped structs, through the dynamic interface
fn check_value(ctx: &mut Ctx, who: &str, v: &dyn Typed, keys: &[(&str, bool)], reparse: &dyn Fn(Option<&lossy::Paragraph>, Option<&Paragraph>) -> Result<Box<dyn Typed>, String>, r: &mut Rng) -> bool {
    let res = guard(8192, || {
        let pl = v.to_lossy();
        let pll = v.to_lossless();
        let il = items_lossy(&pl);
        let ill = items_lossless(&pll);
        let back_l = reparse(Some(&pl), None).map(|b| items_lossy(&b.to_lossy()));
        let back_ll = reparse(None, Some(&pll)).map(|b| items_lossy(&b.to_lossy()));
        // the paragraphs also survive printing: re-read their text with the matching reader
        let text_l = if il.is_empty() { Ok(vec![]) } else { lossy::Paragraph::from_str(&pl.to_string()).map(|p| items_lossy(&p)).map_err(|e| e.to_string()) };
        let text_ll = if ill.is_empty() { Ok(vec![]) } else { Paragraph::from_str(&pll.to_string()).map(|p| items_lossless(&p)).map_err(|e| e.to_string()) };
        (il, ill, back_l, back_ll, pll.to_string(), text_l, text_ll, pl.to_string())
    });
    let (il, ill, back_l, back_ll, printed, text_l, text_ll, printed_l) = match res {
        Ok(x) => x,
        Err(f) => {
            fail(ctx, &f.class(), who, "to/from_paragraph", json!({"failure": f.json()}));
            return false;
        }
    };
    if il != ill {
        fail(ctx, "backends-differ", who, "to_paragraph", json!({"lossy": il, "lossless": ill}));
        return false;
    }
    for (t, name, txt) in [(&text_l, "lossy", &printed_l), (&text_ll, "lossless", &printed)] {
        // (an empty first line is not a value line: compare up to it)
        let norm = |v: &Vec<(String, String)>| v.iter().map(|(k, x)| (k.clone(), x.trim_start_matches('\n').to_string())).collect::<Vec<_>>();
        match t {
            Ok(items) if norm(items) == norm(&il) => {}
            other => {
                fail(ctx, "printed-paragraph-rereads-differently", who, name, json!({"paragraph": il, "printed": clip(txt), "reread": format!("{:?}", other)}));
                return false;
            }
        }
    }
    // names in declaration order, absent options omitted
    let order: Vec<&str> = il.iter().map(|(k, _)| k.as_str()).collect();
    let expected_order: Vec<&str> = keys.iter().map(|(k, _)| *k).filter(|k| order.contains(k)).collect();
    if order != expected_order || keys.iter().any(|(k, m)| *m && !order.contains(k)) {
        fail(ctx, "keys-not-in-declaration-order", who, "to_paragraph", json!({"keys": order, "declared": keys.iter().map(|k| k.0).collect::<Vec<_>>()}));
        return false;
    }
    for (b, name) in [(&back_l, "lossy"), (&back_ll, "lossless")] {
        match b {
            Ok(items) if *items == il => {}
            other => {
                fail(ctx, "roundtrip-unequal", who, name, json!({"paragraph": il, "printed": clip(&printed), "back": format!("{:?}", other)}));
                return false;
            }
        }
    }
    // update_paragraph onto a prior paragraph
    let (prior, foreign) = gen_prior(r, keys);
    let res = guard(8192, || {
        let mut pl = lossy::Paragraph::from_str(&prior).map_err(|e| e.to_string())?;
        // the lossless paragraph lives in its document (comments heading the text belong to the document)
        let doc = deb822_lossless::Deb822::from_str(&prior).map_err(|e| e.to_string())?;
        let mut pll = doc.paragraphs().next().ok_or("no paragraph")?;
        v.update_lossy(&mut pl);
        v.update_lossless(&mut pll);
        let rl = reparse(Some(&pl), None).map(|b| items_lossy(&b.to_lossy()));
        let rll = reparse(None, Some(&pll)).map(|b| items_lossy(&b.to_lossy()));
        Ok::<_, String>((items_lossy(&pl), items_lossless(&pll), doc.to_string(), rl, rll))
    });
    let (ul, ull, utext, rl, rll) = match res {
        Ok(Ok(x)) => x,
        Ok(Err(e)) => {
            ctx.harness_error("prior paragraph rejected", json!({"prior": prior, "error": e}));
            return false;
        }
        Err(f) => {
            fail(ctx, &f.class(), who, "update_paragraph", json!({"prior": prior, "failure": f.json()}));
            return false;
        }
    };
    for (b, name) in [(&rl, "lossy"), (&rll, "lossless")] {
        match b {
            Ok(items) if *items == il => {}
            other => {
                fail(ctx, "update-reads-back-differently", who, name, json!({"prior": prior, "value": il, "after": clip(&utext), "back": format!("{:?}", other)}));
                return false;
            }
        }
    }
    if ul != ull {
        fail(ctx, "backends-differ", who, "update_paragraph", json!({"prior": prior, "lossy": ul, "lossless": ull}));
        return false;
    }
    // absent options removed, foreign fields untouched
    for (k, _) in keys {
        let present = il.iter().any(|(n, _)| n == k);
        if !present && ul.iter().any(|(n, _)| n == k) {
            fail(ctx, "absent-option-still-present", who, "update_paragraph", json!({"prior": prior, "field": k, "after": clip(&utext)}));
            return false;
        }
    }
    for fname in &foreign {
        // the raw text of the foreign field (with its comment lines) survives byte for byte
        let raw: String = prior.split_inclusive('\n').skip_while(|l| !l.starts_with(&format!("{}:", fname))).take_while(|l| l.starts_with(&format!("{}:", fname)) || l.starts_with(' ')).collect();
        if !utext.contains(&raw) {
            fail(ctx, "foreign-field-changed", who, "update_paragraph(lossless)", json!({"prior": prior, "field": fname, "after": clip(&utext)}));
            return false;
        }
        if !ul.iter().any(|(n, _)| n == fname) {
            fail(ctx, "foreign-field-lost", who, "update_paragraph(lossy)", json!({"prior": prior, "field": fname}));
            return false;
        }
    }
    for c in prior.lines().filter(|l| l.starts_with('#')) {
        if !utext.lines().any(|l| l == c) {
            fail(ctx, "comment-lost", who, "update_paragraph(lossless)", json!({"prior": prior, "comment": c, "after": clip(&utext)}));
            return false;
        }
    }
    // update_paragraph onto a paragraph that was itself produced by to_paragraph (both back-ends):
    // the result must print to text that re-reads as the value, with no stray lines
    let res = guard(8192, || {
        let mut pl = v.to_lossy();
        let mut pll = v.to_lossless();
        v.update_lossy(&mut pl);
        v.update_lossless(&mut pll);
        let tl = pl.to_string();
        let tll = pll.to_string();
        let rl = if il.is_empty() { Ok(vec![]) } else { lossy::Paragraph::from_str(&tl).map(|p| items_lossy(&p)).map_err(|e| e.to_string()) };
        let rll = if il.is_empty() { Ok(vec![]) } else { deb822_lossless::Deb822::from_str(&tll).map(|d| d.paragraphs().map(|p| items_lossless(&p)).collect::<Vec<_>>()).map_err(|e| e.to_string()) };
        (tl, tll, rl, rll)
    });
    match res {
        Err(f) => {
            fail(ctx, &f.class(), who, "update_paragraph(to_paragraph output)", json!({"value": il, "failure": f.json()}));
            return false;
        }
        Ok((tl, tll, rl, rll)) => {
            let norm = |v: &Vec<(String, String)>| v.iter().map(|(k, x)| (k.clone(), x.trim_start_matches('\n').to_string())).collect::<Vec<_>>();
            if !matches!(&rl, Ok(items) if norm(items) == norm(&il)) {
                fail(ctx, "self-update-rereads-differently", who, "lossy", json!({"value": il, "printed": clip(&tl), "reread": format!("{:?}", rl)}));
                return false;
            }
            let one_para = matches!(&rll, Ok(ps) if (il.is_empty() && ps.is_empty()) || (ps.len() == 1 && norm(&ps[0]) == norm(&il)));
            if !one_para {
                fail(ctx, "self-update-rereads-differently", who, "lossless", json!({"value": il, "printed": clip(&tll), "reread": format!("{:?}", rll)}));
                return false;
            }
        }
    }
    true
}

fn test_struct_lane(ctx: &mut Ctx, _idx: u64) {
    let mut r = ctx.rng();
    let v = gen_shapes(&mut r);
    let reparse = |pl: Option<&lossy::Paragraph>, pll: Option<&Paragraph>| -> Result<Box<dyn Typed>, String> {
        match (pl, pll) {
            (Some(p), _) => Shapes::from_paragraph(p).map(|x| Box::new(x) as Box<dyn Typed>),
            (_, Some(p)) => Shapes::from_paragraph(p).map(|x| Box::new(x) as Box<dyn Typed>),
            _ => unreachable!(),
        }
    };
    // direct equality too (the struct has PartialEq)
    let direct = guard(4096, || {
        let a: lossy::Paragraph = v.to_paragraph();
        let b: Paragraph = v.to_paragraph();
        (Shapes::from_paragraph(&a), Shapes::from_paragraph(&b))
    });
    match direct {
        Ok((Ok(a), Ok(b))) if a == v && b == v => {}
        other => {
            fail(ctx, "roundtrip-unequal", "Shapes", "direct", json!({"value": format!("{:?}", v), "got": format!("{:?}", other.map_err(|f| f.msg))}));
            return;
        }
    }
    let ok = check_value(ctx, "Shapes", &v, &SHAPES_KEYS, &reparse, &mut r);
    ctx.count(if ok { "held" } else { "violated" });
    ctx.nontrivial(format!("{:?}", v).as_bytes());
    ctx.sample(|| json!({"struct": "Shapes", "value": format!("{:?}", v)}));
}

fn shipped_lane(ctx: &mut Ctx, idx: u64) {
    let mut r = ctx.rng();
    let k = (idx % KINDS.len() as u64) as usize;
    let kind = &KINDS[k];
    let pairs = typed::gen_pairs(&mut r, k);
    let keys: Vec<(&str, bool)> = kind.fields.iter().map(|f| (f.name, f.mandatory)).collect();
    // the paragraphs are assembled from the pairs, or read by the two readers from one text in which list-valued
    // fields may start on the line after the name (the layout such fields have in real files)
    let mode = (idx / KINDS.len() as u64) % 4;
    let from_text = (mode == 1 || mode == 3) && !pairs.is_empty();
    // mode 3: the lossless paragraph is a copy of the lossy one made through the public item iterator
    let copy_items = mode == 3 && from_text;
    let mut text = String::new();
    if from_text {
        super::c20::write_para(&mut r, &pairs, false, &mut text);
        ctx.count(if text.contains(":\n ") { "paragraphs:read-from-text:next-line-layout" } else { "paragraphs:read-from-text" });
        if copy_items {
            ctx.count("paragraphs:lossless-copied-from-lossy-items");
        }
    }
    let built = guard(8192, || {
        let (pl, pll): (lossy::Paragraph, Paragraph) = if copy_items {
            let pl = lossy::Paragraph::from_str(&text).expect("lossy reader");
            let pll: Paragraph = pl.iter().map(|(k, v)| (k.to_string(), v.to_string())).collect();
            (pl, pll)
        } else if from_text {
            (lossy::Paragraph::from_str(&text).expect("lossy reader"), Paragraph::from_str(&text).expect("lossless reader"))
        } else {
            (pairs.iter().cloned().collect(), pairs.iter().cloned().collect())
        };
        (typed::from_paragraph(k, Some(&pl), None), typed::from_paragraph(k, None, Some(&pll)))
    });
    let (vl, vll) = match built {
        Err(f) => {
            fail(ctx, &f.class(), kind.name, "from_paragraph", json!({"paragraph": pairs, "failure": f.json()}));
            return;
        }
        Ok((Ok(a), Ok(b))) => (a, b),
        Ok((a, b)) => {
            fail(ctx, "valid-paragraph-rejected", kind.name, "from_paragraph", json!({"paragraph": pairs, "lossy": a.err(), "lossless": b.err()}));
            return;
        }
    };
    let (il, ill) = (items_lossy(&vl.to_lossy()), items_lossy(&vll.to_lossy()));
    if il != ill {
        fail(ctx, "backends-differ", kind.name, "from_paragraph", json!({"paragraph": pairs, "from_lossy": il, "from_lossless": ill}));
        return;
    }
    // the value carries what the paragraph said (values are canonical, so text equality is expected)
    let canon_pairs: Vec<(String, String)> = pairs.iter().map(|(k, v)| (k.clone(), typed::canon_text(kind.name, k, v))).collect();
    if il != canon_pairs {
        fail(ctx, "value-differs-from-paragraph", kind.name, "from_paragraph", json!({"paragraph": pairs, "value": il}));
        return;
    }
    let reparse = |pl: Option<&lossy::Paragraph>, pll: Option<&Paragraph>| typed::from_paragraph(k, pl, pll);
    let ok = check_value(ctx, kind.name, vl.as_ref(), &keys, &reparse, &mut r);
    ctx.count(if ok { "held" } else { "violated" });
    ctx.count(&format!("kind:{}", kind.name));
    ctx.nontrivial(format!("{}|{:?}", k, pairs).as_bytes());
    ctx.sample(|| json!({"struct": kind.name, "paragraph": pairs}));
}

/// A shipped struct driven from values instead of paragraphs: every origin category x location form of the DEP-3
/// header, the category-only origin (what "Origin: vendor" reads as) included, through both back-ends.
fn dep3_values_lane(ctx: &mut Ctx, idx: u64) {
    use dep3::{Origin, OriginCategory};
    let cat = [None, Some(OriginCategory::Backport), Some(OriginCategory::Vendor), Some(OriginCategory::Upstream), Some(OriginCategory::Other)][(idx % 5) as usize];
    let origin = match idx / 5 {
        0 => Origin::Other(String::new()),
        1 => Origin::Other("https://example.org/fix.patch".to_string()),
        2 => Origin::Commit("abc123".to_string()),
        _ => Origin::Other("some words".to_string()),
    };
    if cat.is_none() && matches!(&origin, Origin::Other(s) if s.is_empty()) {
        ctx.count("skipped:no-origin-at-all");
        return;
    }
    let v = dep3::lossy::PatchHeader {
        origin: Some((cat, origin.clone())),
        forwarded: None,
        author: Some("Joe <joe@example.com>".to_string()),
        reviewed_by: None,
        bug_debian: None,
        last_update: None,
        applied_upstream: None,
        bug: None,
        description: Some("short".to_string()),
    };
    let shape = format!("category:{},location:{}", cat.map(|c| c.to_string()).unwrap_or("none".into()), match &origin { Origin::Other(s) if s.is_empty() => "none", Origin::Commit(_) => "commit", _ => "text" });
    let res = guard(4096, || {
        let a: lossy::Paragraph = v.to_paragraph();
        let b: Paragraph = v.to_paragraph();
        let back_a = <dep3::lossy::PatchHeader as FromDeb822Paragraph<lossy::Paragraph>>::from_paragraph(&a).map(|x| x.origin);
        let back_b = <dep3::lossy::PatchHeader as FromDeb822Paragraph<Paragraph>>::from_paragraph(&b).map(|x| x.origin);
        (a.to_string(), back_a, back_b)
    });
    ctx.count("evaluations");
    match res {
        Err(f) => fail(ctx, &f.class(), "dep3::lossy::PatchHeader", &shape, f.json()),
        Ok((text, a, b)) => {
            let want = Ok(v.origin.clone());
            if a != want || b != want {
                fail(ctx, "roundtrip-unequal", "dep3::lossy::PatchHeader", &shape, json!({"value": format!("{:?}", v.origin), "paragraph": text, "from_lossy": format!("{:?}", a), "from_lossless": format!("{:?}", b)}));
                return;
            }
            ctx.distinct_exact += 1;
            ctx.sample(|| json!({"origin": format!("{:?}", v.origin), "paragraph": text}));
        }
    }
}

fn errors_lane(ctx: &mut Ctx, idx: u64) {
    let mut r = ctx.rng();
    // enumerate (kind, field, missing|invalid)
    let mut n = idx;
    for (k, kind) in KINDS.iter().enumerate() {
        let per = 2 * kind.fields.len() as u64;
        if n >= per {
            n -= per;
            continue;
        }
        let fi = (n / 2) as usize;
        let missing = n % 2 == 0;
        let fs = &kind.fields[fi];
        // a complete valid paragraph (all fields present)
        let mut pairs: Vec<(String, String)> = kind.fields.iter().map(|f| (f.name.to_string(), r.pick_s(f.values).to_string())).collect();
        let (what, expect_err) = if missing {
            pairs.retain(|(n, _)| n != fs.name);
            ("missing", fs.mandatory)
        } else {
            match fs.invalid {
                Some(bad) => {
                    pairs[fi].1 = bad.to_string();
                    ("invalid", true)
                }
                None => {
                    ctx.count("skipped:field-accepts-any-text");
                    return;
                }
            }
        };
        for backend in ["lossy", "lossless"] {
            let res = guard(4096, || {
                if backend == "lossy" {
                    let p: lossy::Paragraph = pairs.iter().cloned().collect();
                    typed::from_paragraph(k, Some(&p), None).map(|_| ())
                } else {
                    let p: Paragraph = pairs.iter().cloned().collect();
                    typed::from_paragraph(k, None, Some(&p)).map(|_| ())
                }
            });
            ctx.count(&format!("error-probe:{}", what));
            match res {
                Err(f) => fail(ctx, &f.class(), kind.name, &format!("{}:{}", what, fs.name), json!({"paragraph": pairs, "failure": f.json()})),
                Ok(Ok(())) => {
                    if expect_err {
                        fail(ctx, &format!("{}-field-accepted", what), kind.name, &format!("{}:{}", what, fs.name), json!({"paragraph": pairs, "backend": backend}));
                    }
                }
                Ok(Err(e)) => {
                    if !expect_err {
                        fail(ctx, "optional-field-required", kind.name, &format!("{}:{}", what, fs.name), json!({"paragraph": pairs, "error": e}));
                    } else if !e.contains(fs.name) {
                        fail(ctx, "error-does-not-name-field", kind.name, &format!("{}:{}", what, fs.name), json!({"paragraph": pairs, "error": e, "field": fs.name}));
                    }
                }
            }
        }
        ctx.distinct_exact += 1;
        ctx.sample(|| json!({"struct": kind.name, "field": fs.name, "probe": what}));
        return;
    }
    // the harness-local struct: 40 probes
    let v = gen_shapes(&mut r);
    let p: lossy::Paragraph = v.to_paragraph();
    let (key, mandatory) = SHAPES_KEYS[(n as usize) % SHAPES_KEYS.len()];
    let mut pairs = items_lossy(&p);
    let what = if (n as usize) < SHAPES_KEYS.len() { "missing" } else { "invalid" };
    if (n as usize) < SHAPES_KEYS.len() {
        pairs.retain(|(k, _)| k != key);
    } else {
        let bad = match key { "Count" | "X-Opt-Num" | "Signed" => "1x", "flag" | "opt_flag" => "maybe", "prio" | "Opt-Prio" => "bogus", _ => { ctx.count("skipped:field-accepts-any-text"); return; } };
        match pairs.iter_mut().find(|(k, _)| k == key) {
            Some(f) => f.1 = bad.to_string(),
            None => pairs.push((key.to_string(), bad.to_string())),
        }
    }
    let pl: lossy::Paragraph = pairs.iter().cloned().collect();
    let pll: Paragraph = pairs.iter().cloned().collect();
    for (res, backend) in [(Shapes::from_paragraph(&pl).map(|_| ()), "lossy"), (Shapes::from_paragraph(&pll).map(|_| ()), "lossless")] {
        ctx.count(&format!("error-probe:{}", what));
        let expect_err = what == "invalid" || mandatory;
        match res {
            Ok(()) if expect_err => fail(ctx, &format!("{}-field-accepted", what), "Shapes", &format!("{}:{}", what, key), json!({"paragraph": pairs, "backend": backend})),
            Err(e) if !expect_err => fail(ctx, "optional-field-required", "Shapes", &format!("{}:{}", what, key), json!({"paragraph": pairs, "error": e})),
            Err(e) if !e.contains(key) => fail(ctx, "error-does-not-name-field", "Shapes", &format!("{}:{}", what, key), json!({"error": e, "field": key})),
            _ => {}
        }
    }
    ctx.distinct_exact += 1;
}
