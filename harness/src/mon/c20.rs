//! C20 — typed lossy documents are stable under print/reparse, carry what
//! the lossless reader shows, and reject structurally invalid documents.
use crate::rt::{clip, guard, Ctx, Lane, Rng};
use crate::typed::{self, items_lossy, Typed, KINDS};
use deb822_lossless::{lossy, FromDeb822Paragraph};
use serde_json::json;
use std::str::FromStr;

pub fn lanes() -> Vec<Lane> {
    vec![
        Lane { name: "documents", count: |c| DOCS.len() as u64 * if c.thorough() { 60_000 } else { 15_000 }, run: documents_lane },
        Lane { name: "invalid", count: |c| DOCS.len() as u64 * if c.thorough() { 20_000 } else { 5_000 }, run: invalid_lane },
        Lane { name: "list-items", count: |c| if c.thorough() { 100_000 } else { 10_000 }, run: list_items_lane },
    ]
}

/// Item lists looked at as values, not through their printed form (where an empty item is invisible): the
/// `Package-List` of a Sources stanza carries exactly the lines the lossless reader shows, in both usual layouts,
/// and any list, the empty one included, survives value -> paragraph -> value on both back-ends.
fn list_items_lane(ctx: &mut Ctx, _idx: u64) {
    use deb822_lossless::{FromDeb822Paragraph, ToDeb822Paragraph};
    use debian_control::lossy::apt::Source;
    let mut r = ctx.rng();
    let d = DOCS.iter().find(|d| d.name == "control::lossy::apt::Source").unwrap();
    let g = gen_document(&mut r, d);
    let n = r.below(4);
    let new_list: Vec<String> = (0..n).map(|i| format!("pkg{} deb utils optional", i)).collect();
    let res = guard(g.text.len() * 4 + 4096, || {
        let v = Source::from_str(&g.text)?;
        let shown = deb822_lossless::Deb822::from_str(&g.text).map_err(|e| e.to_string())?.paragraphs().next().and_then(|p| p.get("Package-List")).unwrap_or_default();
        let mut w = v.clone();
        w.package_list = new_list.clone();
        let lossy_p: deb822_lossless::lossy::Paragraph = w.to_paragraph();
        let lossless_p: deb822_lossless::Paragraph = w.to_paragraph();
        let back_lossy = <Source as FromDeb822Paragraph<deb822_lossless::lossy::Paragraph>>::from_paragraph(&lossy_p).map(|x| x.package_list);
        let back_lossless = <Source as FromDeb822Paragraph<deb822_lossless::Paragraph>>::from_paragraph(&lossless_p).map(|x| x.package_list);
        let binaries_shown = deb822_lossless::Deb822::from_str(&g.text).map_err(|e| e.to_string())?.paragraphs().next().and_then(|p| p.get("Binary"));
        Ok::<_, String>((v.package_list, shown, back_lossy, back_lossless, v.binaries, binaries_shown))
    });
    match res {
        Err(f) => ctx.violation(&format!("{}|control::lossy::apt::Source|list-items", f.class()), json!({"input": clip(&g.text), "failure": f.json()})),
        Ok(Err(e)) => ctx.violation("wellformed-document-rejected|control::lossy::apt::Source|list-items", json!({"input": clip(&g.text), "error": e})),
        Ok(Ok((items, shown, bl, bll, binaries, binaries_shown))) => {
            // the Binary field of a Sources stanza is a comma-separated list of names
            let want_bin: Option<Vec<String>> = binaries_shown.map(|s| s.split(|c: char| c == ',' || c.is_whitespace()).filter(|x| !x.is_empty()).map(|x| x.to_string()).collect());
            if binaries != want_bin {
                ctx.violation("list-differs-from-lossless-view|control::lossy::apt::Source|Binary", json!({"input": clip(&g.text), "typed": binaries, "names": want_bin}));
                return;
            }
            let want = norm_value(&shown);
            if items != want {
                ctx.violation("list-differs-from-lossless-view|control::lossy::apt::Source|Package-List", json!({"input": clip(&g.text), "typed": items, "lossless": want}));
                return;
            }
            for (who, b) in [("lossy", bl), ("lossless", bll)] {
                if b.as_ref() != Ok(&new_list) {
                    ctx.violation(&format!("list-roundtrip-unequal|control::lossy::apt::Source|Package-List:{}:{}", who, if new_list.is_empty() { "empty" } else { "items" }), json!({"set": new_list, "read_back": format!("{:?}", b)}));
                    return;
                }
            }
            ctx.count(if g.text.contains("Package-List:\n") { "layout:next-line" } else { "layout:same-line" });
            ctx.count(&format!("set-items:{}", new_list.len()));
            ctx.nontrivial(format!("{}|{}", n, g.text).as_bytes());
            ctx.sample(|| json!({"input": clip(&g.text), "items": want, "set": new_list}));
        }
    }
}

type Views = Vec<Vec<(String, String)>>;

fn view(t: &dyn Typed) -> Vec<(String, String)> {
    items_lossy(&t.to_lossy())
}

struct DocKind {
    name: &'static str,
    /// paragraph kinds (indices into typed::KINDS) a document is made of: (kind, min, max)
    parts: &'static [(usize, usize, usize)],
    /// parse the text with the type's own reader; Ok((views of the value's paragraphs, printed form))
    eval: fn(&str) -> Result<(Views, String), String>,
}

fn eval_control(s: &str) -> Result<(Views, String), String> {
    let c = debian_control::lossy::Control::from_str(s)?;
    let mut v = vec![view(&c.source)];
    v.extend(c.binaries.iter().map(|b| view(b)));
    Ok((v, c.to_string()))
}
fn eval_copyright(s: &str) -> Result<(Views, String), String> {
    let c = debian_copyright::lossy::Copyright::from_str(s)?;
    let mut v = vec![view(&c.header)];
    v.extend(c.files.iter().map(|b| view(b)));
    v.extend(c.licenses.iter().map(|b| view(b)));
    Ok((v, c.to_string()))
}
fn eval_release(s: &str) -> Result<(Views, String), String> {
    let p = lossy::Paragraph::from_str(s).map_err(|e| e.to_string())?;
    let r = debian_control::lossy::apt::Release::from_paragraph(&p)?;
    Ok((vec![view(&r)], r.to_lossy().to_string()))
}
fn eval_apt_source(s: &str) -> Result<(Views, String), String> {
    let r = debian_control::lossy::apt::Source::from_str(s)?;
    Ok((vec![view(&r)], r.to_string()))
}
fn eval_apt_package(s: &str) -> Result<(Views, String), String> {
    let r = debian_control::lossy::apt::Package::from_str(s)?;
    Ok((vec![view(&r)], r.to_string()))
}
fn eval_buildinfo(s: &str) -> Result<(Views, String), String> {
    let r = debian_control::lossy::buildinfo::Buildinfo::from_str(s)?;
    Ok((vec![view(&r)], r.to_lossy().to_string()))
}
fn eval_removal(s: &str) -> Result<(Views, String), String> {
    let r = debian_control::lossy::ftpmaster::Removal::from_str(s)?;
    Ok((vec![view(&r)], r.to_lossy().to_string()))
}
fn eval_dep3(s: &str) -> Result<(Views, String), String> {
    let r = dep3::lossy::PatchHeader::from_str(s)?;
    Ok((vec![view(&r)], r.to_string()))
}
fn eval_sources(s: &str) -> Result<(Views, String), String> {
    let r = apt_sources::Repositories::from_str(s)?;
    Ok((r.iter().map(|x| view(x)).collect(), r.to_string()))
}

static DOCS: [DocKind; 9] = [
    DocKind { name: "control::lossy::Control", parts: &[(0, 1, 1), (1, 0, 3)], eval: eval_control },
    DocKind { name: "copyright::lossy::Copyright", parts: &[(7, 1, 1), (8, 0, 3), (9, 0, 2)], eval: eval_copyright },
    DocKind { name: "control::lossy::apt::Release", parts: &[(2, 1, 1)], eval: eval_release },
    DocKind { name: "control::lossy::apt::Source", parts: &[(3, 1, 1)], eval: eval_apt_source },
    DocKind { name: "control::lossy::apt::Package", parts: &[(4, 1, 1)], eval: eval_apt_package },
    DocKind { name: "control::lossy::Buildinfo", parts: &[(5, 1, 1)], eval: eval_buildinfo },
    DocKind { name: "control::lossy::Removal", parts: &[(6, 1, 1)], eval: eval_removal },
    DocKind { name: "dep3::lossy::PatchHeader", parts: &[(10, 1, 1)], eval: eval_dep3 },
    DocKind { name: "apt_sources::Repositories", parts: &[(11, 1, 3)], eval: eval_sources },
];

/// write a paragraph: one "Name: value" per pair, continuation lines indented by one blank
const NEXT_LINE_FIELDS: [&str; 24] = [
    "Package-List", "Files", "Checksums-Sha1", "Checksums-Sha256", "Checksums-Sha512", "MD5Sum", "SHA1", "SHA256", "SHA512", "Binary", "Environment", "Sources", "Binaries", "Copyright",
    // folded lists that are often written one item per line
    "Build-Depends", "Build-Depends-Indep", "Build-Conflicts", "Depends", "Recommends", "Suggests", "Breaks", "Uploaders", "Tag", "Installed-Build-Depends",
];

pub fn write_para(r: &mut Rng, pairs: &[(String, String)], comments: bool, out: &mut String) {
    for (k, v) in pairs {
        // (a copyright file must start with its Format field: no comment in front of the very first line)
        if comments && !out.is_empty() && r.chance(1, 6) {
            out.push_str("# a comment: with colon\n");
        }
        out.push_str(k);
        out.push(':');
        let mut lines = v.split('\n');
        // list-valued fields are usually laid out one item per line, starting on the line after the name
        // (in a Packages stanza MD5sum/SHA1/SHA256 are single hashes, not lists)
        let single_hash = pairs.iter().any(|(n, _)| n == "Installed-Size" || n == "Filename") && (k.starts_with("SHA") || k.starts_with("MD5"));
        if NEXT_LINE_FIELDS.contains(&k.as_str()) && !single_hash && !v.is_empty() && r.chance(1, 3) {
            out.push('\n');
            for l in lines {
                out.push(' ');
                out.push_str(l);
                out.push('\n');
            }
            continue;
        }
        let first = lines.next().unwrap_or("");
        if !first.is_empty() {
            out.push_str(r.pick_s(&[" ", " ", "  ", "\t"]));
            out.push_str(first);
        }
        out.push('\n');
        for l in lines {
            out.push_str(r.pick_s(&[" ", " ", "  "]));
            out.push_str(l);
            out.push('\n');
        }
    }
}

struct GenDoc {
    text: String,
    /// (paragraph kind, pairs) in file order
    paras: Vec<(usize, Vec<(String, String)>)>,
}

fn gen_document(r: &mut Rng, d: &DocKind) -> GenDoc {
    let mut paras: Vec<(usize, Vec<(String, String)>)> = vec![];
    for (k, lo, hi) in d.parts {
        for _ in 0..r.range(*lo, *hi) {
            let mut pairs = typed::gen_pairs(r, *k);
            if pairs.is_empty() {
                // every field of this kind is optional: a paragraph still needs one line, either a field of the
                // kind or only fields the type does not model (the value then carries nothing at all)
                if r.chance(1, 3) {
                    pairs.push(("Bug-Ubuntu".to_string(), "https://bugs.launchpad.net/bugs/123456".to_string()));
                } else {
                    let f = &KINDS[*k].fields[r.below(KINDS[*k].fields.len())];
                    pairs.push((f.name.to_string(), r.pick_s(f.values).to_string()));
                }
            }
            paras.push((*k, pairs));
        }
    }
    // paragraphs in any order where the format allows it: control (source anywhere), copyright (files/licences mixed, header first)
    if d.name.contains("Control") && paras.len() > 1 && r.chance(1, 3) {
        let s = paras.remove(0);
        let at = r.range(1, paras.len());
        paras.insert(at, s);
    }
    if d.name.contains("Copyright") && paras.len() > 2 {
        for i in (2..paras.len()).rev() {
            let j = r.range(1, i);
            paras.swap(i, j);
        }
    }
    // a DEP-3 header may use the From/Subject spelling, for either field independently
    if d.name.contains("PatchHeader") {
        let (rf, rs) = (r.chance(1, 3), r.chance(1, 3));
        for p in paras.iter_mut() {
            for f in p.1.iter_mut() {
                if rf && f.0 == "Author" {
                    f.0 = "From".to_string();
                } else if rs && f.0 == "Description" {
                    f.0 = "Subject".to_string();
                }
            }
        }
    }
    let comments = !d.name.contains("copyright") || true;
    let mut text = String::new();
    for (i, (_, pairs)) in paras.iter().enumerate() {
        if i > 0 {
            for _ in 0..r.range(1, 2) {
                text.push('\n');
            }
        }
        write_para(r, pairs, comments, &mut text);
    }
    GenDoc { text, paras }
}

fn norm_value(v: &str) -> Vec<String> {
    v.split('\n').map(|l| l.trim_matches([' ', '\t']).to_string()).filter(|l| !l.is_empty()).collect()
}

/// a comma-separated list of names, however it is folded (the Sources `Binary` field: the type prints it on one line)
fn names_of(v: &str) -> Vec<String> {
    v.split(|c: char| c == ',' || c.is_whitespace()).filter(|x| !x.is_empty()).map(|x| x.to_string()).collect()
}

/// the lines of a value as the typed value carries them: an empty line (e.g. a leading one) is not dropped
fn carried_lines(v: &str) -> Vec<String> {
    if v.is_empty() {
        return vec![];
    }
    v.split('\n').map(|l| l.trim_matches([' ', '\t']).to_string()).collect()
}

/// the role order in which the typed value lists its paragraphs
fn role_order(d: &DocKind, paras: &[(usize, Vec<(String, String)>)]) -> Vec<usize> {
    let mut idx: Vec<usize> = (0..paras.len()).collect();
    if d.name.contains("Control") {
        idx.sort_by_key(|i| if paras[*i].0 == 0 { 0 } else { 1 });
    } else if d.name.contains("Copyright") {
        idx.sort_by_key(|i| match paras[*i].0 { 7 => 0, 8 => 1, _ => 2 });
    }
    idx
}

fn documents_lane(ctx: &mut Ctx, idx: u64) {
    let mut r = ctx.rng();
    let d = &DOCS[(idx % DOCS.len() as u64) as usize];
    let g = gen_document(&mut r, d);
    let res = guard(g.text.len() * 4 + 4096, || {
        let first = (d.eval)(&g.text);
        let second = first.as_ref().ok().map(|(_, printed)| (d.eval)(printed));
        let lossless = deb822_lossless::Deb822::from_str(&g.text).map(|x| x.paragraphs().map(|p| p.items().collect::<Vec<_>>()).collect::<Vec<_>>());
        (first, second, lossless)
    });
    let fail = |ctx: &mut Ctx, kind: &str, what: &str, info: serde_json::Value| {
        ctx.violation(&format!("{}|{}|{}", kind, d.name, what), json!({"input": clip(&g.text), "info": info}));
    };
    let (first, second, lossless) = match res {
        Ok(x) => x,
        Err(f) => {
            fail(ctx, &f.class(), "from_str/print", f.json());
            return;
        }
    };
    let (views, printed) = match first {
        Ok(x) => x,
        Err(e) => {
            fail(ctx, "wellformed-document-rejected", "from_str", json!({"error": e}));
            return;
        }
    };
    ctx.count(&format!("kind:{}", d.name));
    // (a) print/reparse stability
    match second.unwrap() {
        Err(e) => {
            fail(ctx, "printed-form-rejected", "from_str(print)", json!({"printed": clip(&printed), "error": e}));
            return;
        }
        Ok((v2, p2)) => {
            if v2 != views {
                fail(ctx, "reparse-unequal", "from_str(print)", json!({"printed": clip(&printed), "first": views, "second": v2}));
                return;
            }
            if p2 != printed {
                fail(ctx, "second-print-differs", "print", json!({"first": clip(&printed), "second": clip(&p2)}));
                return;
            }
        }
    }
    // (b) field by field what the lossless reader shows, paragraphs assigned to their roles
    let Ok(ll) = lossless else {
        ctx.harness_error("generated typed document rejected by the lossless reader", json!({"input": clip(&g.text)}));
        return;
    };
    let order = role_order(d, &g.paras);
    if views.len() != order.len() || ll.len() != g.paras.len() {
        fail(ctx, "paragraph-count", "from_str", json!({"value_paragraphs": views.len(), "text_paragraphs": g.paras.len()}));
        return;
    }
    for (vi, pi) in order.iter().enumerate() {
        let kind = g.paras[*pi].0;
        let known: Vec<&str> = KINDS[kind].fields.iter().map(|f| f.name).collect();
        let shown: Vec<(String, Vec<String>)> = ll[*pi]
            .iter()
            .map(|(k, v)| {
                // DEP-3 spelling fallbacks are documented readings of From/Subject
                let k = if d.name.contains("PatchHeader") { match k.as_str() { "From" => "Author".to_string(), "Subject" => "Description".to_string(), _ => k.clone() } } else { k.clone() };
                let v = typed::canon_text(KINDS[kind].name, &k, v);
                if k == "Binary" && KINDS[kind].name.ends_with("apt::Source") {
                    return (k, names_of(&v));
                }
                (k, norm_value(&v))
            })
            .filter(|(k, _)| known.contains(&k.as_str()))
            .collect();
        // (a Signed-By key block is a value of its own type, whose text form starts on the line after the name)
        let is_apt_source = KINDS[kind].name.ends_with("apt::Source");
        let mut carried: Vec<(String, Vec<String>)> = views[vi]
            .iter()
            .map(|(k, v)| (k.clone(), if k == "Binary" && is_apt_source { names_of(v) } else { carried_lines(if k == "Signed-By" { v.strip_prefix('\n').unwrap_or(v) } else { v }) }))
            .collect();
        let mut shown_sorted = shown.clone();
        // the struct lists fields in declaration order: compare as sets of (name, value)
        carried.sort();
        shown_sorted.sort();
        if carried != shown_sorted {
            fail(ctx, "value-differs-from-lossless-view", KINDS[kind].name, json!({"typed": views[vi], "lossless": ll[*pi]}));
            return;
        }
    }
    ctx.count("held");
    ctx.nontrivial(g.text.as_bytes());
    ctx.sample(|| json!({"kind": d.name, "input": clip(&g.text), "printed": clip(&printed)}));
}

fn invalid_lane(ctx: &mut Ctx, idx: u64) {
    let mut r = ctx.rng();
    let d = &DOCS[(idx % DOCS.len() as u64) as usize];
    let g = gen_document(&mut r, d);
    // build one structurally invalid variant
    let mut paras = g.paras.clone();
    let variant: &str;
    let nvar = (idx / DOCS.len() as u64) % 5;
    match (d.name, nvar) {
        ("control::lossy::Control", 0) => {
            paras.retain(|p| p.0 != 0);
            variant = "no-source-paragraph";
        }
        ("control::lossy::Control", 1) => {
            let s = paras.iter().find(|p| p.0 == 0).unwrap().clone();
            paras.push(s);
            variant = "two-source-paragraphs";
        }
        ("control::lossy::Control", 2) | ("copyright::lossy::Copyright", 2) => {
            paras.push((99, vec![("X-Neither".to_string(), "here".to_string())]));
            variant = "paragraph-of-neither-kind";
        }
        ("copyright::lossy::Copyright", 0) => {
            paras[0].1.retain(|f| f.0 != "Format");
            if paras[0].1.is_empty() {
                paras[0].1.push(("Source".to_string(), "x".to_string()));
            }
            variant = "no-format-field";
        }
        ("copyright::lossy::Copyright", 1) => {
            paras.remove(0);
            variant = "no-header-paragraph";
        }
        _ => {
            // drop one mandatory field of one paragraph
            let pi = r.below(paras.len());
            let kind = paras[pi].0;
            let mand: Vec<&str> = KINDS[kind].fields.iter().filter(|f| f.mandatory).map(|f| f.name).collect();
            if mand.is_empty() {
                ctx.count("skipped:no-mandatory-field");
                return;
            }
            let m = *r.pick(&mand);
            paras[pi].1.retain(|f| f.0 != m);
            if paras[pi].1.is_empty() {
                ctx.count("skipped:paragraph-emptied");
                return;
            }
            // a copyright paragraph that loses its distinguishing field changes role instead of becoming invalid
            if d.name.contains("Copyright") && (m == "Files" && paras[pi].1.iter().any(|f| f.0 == "License")) {
                ctx.count("skipped:role-change");
                return;
            }
            // a control paragraph without Source/Package is the "neither" case
            variant = "missing-mandatory-field";
        }
    }
    if paras.is_empty() {
        ctx.count("skipped:empty-document");
        return;
    }
    let mut text = String::new();
    for (i, (_, pairs)) in paras.iter().enumerate() {
        if i > 0 {
            text.push('\n');
        }
        write_para(&mut r, pairs, false, &mut text);
    }
    let res = guard(text.len() * 4 + 4096, || (d.eval)(&text).map(|_| ()));
    ctx.count(&format!("invalid:{}", variant));
    match res {
        Err(f) => ctx.violation(&format!("{}|{}|invalid:{}", f.class(), d.name, variant), json!({"input": clip(&text), "failure": f.json()})),
        Ok(Ok(())) => ctx.violation(&format!("invalid-document-accepted|{}|invalid:{}", d.name, variant), json!({"input": clip(&text)})),
        Ok(Err(_)) => ctx.count("rejected"),
    }
    ctx.nontrivial(text.as_bytes());
    ctx.sample(|| json!({"kind": d.name, "variant": variant, "input": clip(&text)}));
}
