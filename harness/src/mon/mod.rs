//! One monitor per property.
use crate::rt::Lane;
pub mod c01;
pub mod c02;
pub mod c03;
pub mod c04;
pub mod c05;
pub mod c06;
pub mod c07;
pub mod c08;
pub mod c09;
pub mod c10;
pub mod c11;
pub mod c12;
pub mod c13;
pub mod c14;
pub mod c15;
pub mod c16;
pub mod c17;
pub mod c18;
pub mod c19;
pub mod c20;

pub const PROPS: [&str; 20] = ["C01", "C02", "C03", "C04", "C05", "C06", "C07", "C08", "C09", "C10", "C11", "C12", "C13", "C14", "C15", "C16", "C17", "C18", "C19", "C20"];

pub fn lanes(prop: &str) -> Vec<Lane> {
    match prop {
        "C01" => c01::lanes(),
        "C02" => c02::lanes(),
        "C03" => c03::lanes(),
        "C04" => c04::lanes(),
        "C05" => c05::lanes(),
        "C06" => c06::lanes(),
        "C07" => c07::lanes(),
        "C08" => c08::lanes(),
        "C09" => c09::lanes(),
        "C10" => c10::lanes(),
        "C11" => c11::lanes(),
        "C12" => c12::lanes(),
        "C13" => c13::lanes(),
        "C14" => c14::lanes(),
        "C15" => c15::lanes(),
        "C16" => c16::lanes(),
        "C17" => c17::lanes(),
        "C18" => c18::lanes(),
        "C19" => c19::lanes(),
        "C20" => c20::lanes(),
        _ => vec![],
    }
}
