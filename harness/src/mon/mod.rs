//! One monitor per property.
use crate::rt::Lane;
pub mod c01;
pub mod c02;

pub const PROPS: [&str; 2] = ["C01", "C02"];

pub fn lanes(prop: &str) -> Vec<Lane> {
    match prop {
        "C01" => c01::lanes(),
        "C02" => c02::lanes(),
        _ => vec![],
    }
}
