//! One monitor per property.
use crate::rt::Lane;
pub mod c01;

pub const PROPS: [&str; 1] = ["C01"];

pub fn lanes(prop: &str) -> Vec<Lane> {
    match prop {
        "C01" => c01::lanes(),
        _ => vec![],
    }
}
