//! Reference models written from the property statements (never by calling
//! the code under test).

/// Kind of a line of well-formed deb822 text.
#[derive(Clone, Copy, Debug, PartialEq, Eq)]
pub enum LineKind {
    Blank,
    Comment,
    Field,
    Cont,
    /// anything else (not well-formed)
    Other,
}

#[derive(Clone, Debug)]
pub struct Line<'a> {
    pub kind: LineKind,
    /// the line including its terminator
    pub raw: &'a str,
}

pub fn is_name_char(c: char) -> bool {
    c.is_ascii_graphic() && c != ':'
}

/// Classify the lines of a text (lines end at '\n'; a last line may be unterminated).
pub fn scan(text: &str) -> Vec<Line<'_>> {
    let mut out = vec![];
    for raw in text.split_inclusive('\n') {
        let body = raw.strip_suffix('\n').unwrap_or(raw);
        let kind = if body.is_empty() {
            LineKind::Blank
        } else if body.starts_with('#') {
            LineKind::Comment
        } else if body.starts_with(' ') || body.starts_with('\t') {
            LineKind::Cont
        } else {
            match body.find(':') {
                Some(i) if i > 0 && !body.starts_with('-') && body[..i].chars().all(is_name_char) => LineKind::Field,
                _ => LineKind::Other,
            }
        };
        out.push(Line { kind, raw });
    }
    out
}

/// One field as read by the reference scanner.
#[derive(Clone, Debug, PartialEq, Eq)]
pub struct SField {
    pub name: String,
    /// non-empty lines with indentation / colon whitespace removed
    pub lines: Vec<String>,
    /// full source text of the field (name line and continuation lines)
    pub raw: String,
}

/// Reference reading of a well-formed document: paragraphs of fields; comment
/// lines in order; `None` if some line is not well-formed or a continuation
/// line has no field to continue.
pub struct Scanned {
    pub paras: Vec<Vec<SField>>,
    pub comments: Vec<String>,
}

pub fn read_wellformed(text: &str) -> Option<Scanned> {
    let mut paras: Vec<Vec<SField>> = vec![];
    let mut cur: Vec<SField> = vec![];
    let mut comments = vec![];
    let mut in_field = false;
    for l in scan(text) {
        let body = l.raw.strip_suffix('\n').unwrap_or(l.raw);
        match l.kind {
            LineKind::Blank => {
                if !cur.is_empty() {
                    paras.push(std::mem::take(&mut cur));
                }
                in_field = false;
            }
            LineKind::Comment => {
                comments.push(body.to_string());
                // a comment line inside a multi-line value is outside the
                // domain of the properties (unsupported construct): a
                // continuation line may not follow a comment
                in_field = false;
            }
            LineKind::Field => {
                let i = body.find(':').unwrap();
                let name = body[..i].to_string();
                let v = body[i + 1..].trim_start_matches([' ', '\t']);
                let mut lines = vec![];
                if !v.is_empty() {
                    lines.push(v.to_string());
                }
                cur.push(SField { name, lines, raw: l.raw.to_string() });
                in_field = true;
            }
            LineKind::Cont => {
                if !in_field {
                    return None;
                }
                let v = body.trim_start_matches([' ', '\t']);
                let f = cur.last_mut().unwrap();
                if !v.is_empty() {
                    f.lines.push(v.to_string());
                }
                f.raw.push_str(l.raw);
            }
            LineKind::Other => return None,
        }
    }
    if !cur.is_empty() {
        paras.push(cur);
    }
    Some(Scanned { paras, comments })
}

/// Content (names + joined values) of a scanned document.
pub fn content(s: &Scanned) -> Vec<Vec<(String, String)>> {
    s.paras
        .iter()
        .map(|p| p.iter().map(|f| (f.name.clone(), f.lines.join("\n"))).collect())
        .collect()
}

/// Shape features of arbitrary text, used in violation signatures.
pub fn deb_shape(s: &str) -> &'static str {
    let mut first = true;
    let mut prev_nl = true;
    for c in s.chars() {
        if prev_nl && !c.is_ascii() {
            return "non-ascii-at-line-start";
        }
        let _ = first;
        first = false;
        prev_nl = c == '\n' || c == '\r';
    }
    if s.contains('\r') {
        return "has-cr";
    }
    if !s.is_empty() && !s.ends_with('\n') {
        return "unterminated";
    }
    "plain"
}
