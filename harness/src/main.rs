#![allow(dead_code)]
//! vmon — runtime monitors for deb822-lossless (see /verif/DESIGN.md).
mod gen;
mod model;
mod mon;
mod relgen;
mod rt;
mod typed;

use rt::{Ctx, Inflight};
use std::io::Write;

#[global_allocator]
static GLOBAL: rt::CountingAlloc = rt::CountingAlloc;

const BLOCK: u64 = 64;
const CASE_LIVE_CAP: usize = 768 << 20;

fn usage() -> ! {
    eprintln!(
        "usage: vmon run <prop> --tier T --seed S --shard i/n --out FILE [--lanes a,b] [--scale F]\n       vmon replay <prop> <tier> <seed> <lane> <idx>\n       vmon list\n       vmon merge-hashes FILE..."
    );
    std::process::exit(2)
}

fn on_big_stack<F: FnOnce() + Send + 'static>(f: F) {
    let h = std::thread::Builder::new()
        .stack_size(1 << 20)
        .name("worker".into())
        .spawn(f)
        .unwrap();
    if h.join().is_err() {
        eprintln!("vmon: worker thread panicked (harness error)");
        std::process::exit(3);
    }
}

fn main() {
    let args: Vec<String> = std::env::args().collect();
    if args.len() < 2 {
        usage();
    }
    rt::install_panic_hook();
    if args[1] == "run" || args[1] == "replay" {
        rt::start_case_watchdog();
    }
    match args[1].as_str() {
        "list" => {
            for p in mon::PROPS {
                let ctx = Ctx::new(p, "quick", 1, Box::new(std::io::sink()));
                for l in mon::lanes(p) {
                    println!("{} {} {}", p, l.name, (l.count)(&ctx));
                }
            }
        }
        "merge-hashes" => {
            let mut set = std::collections::HashSet::new();
            for f in &args[2..] {
                let b = std::fs::read(f).unwrap_or_default();
                for c in b.chunks_exact(8) {
                    set.insert(u64::from_le_bytes(c.try_into().unwrap()));
                }
            }
            println!("{}", set.len());
        }
        "replay" => {
            if args.len() != 7 {
                usage();
            }
            let (prop, tier, seed, lane, idx) = (
                args[2].clone(),
                args[3].clone(),
                args[4].parse::<u64>().unwrap(),
                args[5].clone(),
                args[6].parse::<u64>().unwrap(),
            );
            on_big_stack(move || {
                let mut ctx = Ctx::new(&prop, &tier, seed, Box::new(std::io::stdout()));
                ctx.replay_mode = true;
                let lanes = mon::lanes(&prop);
                let Some(l) = lanes.iter().find(|l| l.name == lane) else {
                    eprintln!("no such lane");
                    std::process::exit(2);
                };
                ctx.lane = l.name.to_string();
                ctx.idx = idx;
                rt::set_live_cap(CASE_LIVE_CAP);
                run_case(&mut ctx, l.run, idx);
                ctx.finish();
                std::process::exit(if ctx.violations > 0 { 1 } else { 0 });
            });
        }
        "run" => {
            if args.len() < 3 {
                usage();
            }
            let prop = args[2].clone();
            let mut tier = "quick".to_string();
            let mut seed = 1u64;
            let mut shard = (0u64, 1u64);
            let mut out = String::new();
            let mut only: Option<Vec<String>> = None;
            let mut range: Option<(u64, u64)> = None;
            let mut sample: Option<u64> = None;
            let mut max_ms: u128 = u128::MAX;
            let mut i = 3;
            while i < args.len() {
                let v = args.get(i + 1).cloned().unwrap_or_default();
                match args[i].as_str() {
                    "--tier" => tier = v,
                    "--seed" => seed = v.parse().unwrap(),
                    "--shard" => {
                        let (a, b) = v.split_once('/').unwrap();
                        shard = (a.parse().unwrap(), b.parse().unwrap());
                    }
                    "--out" => out = v,
                    "--lanes" => only = Some(v.split(',').map(|s| s.to_string()).collect()),
                    "--sample" => sample = Some(v.parse().unwrap()),
                    "--max-ms" => max_ms = v.parse().unwrap(),
                    "--range" => {
                        let (a, b) = v.split_once(':').unwrap();
                        range = Some((a.parse().unwrap(), b.parse().unwrap()));
                    }
                    _ => usage(),
                }
                i += 2;
            }
            on_big_stack(move || {
                let sink: Box<dyn Write> = if out.is_empty() {
                    Box::new(std::io::stdout())
                } else {
                    Box::new(std::io::BufWriter::new(std::fs::File::create(&out).unwrap()))
                };
                let mut ctx = Ctx::new(&prop, &tier, seed, sink);
                if !out.is_empty() {
                    ctx.inflight = Inflight::open(&format!("{}.inflight", out));
                }
                let lanes = mon::lanes(&prop);
                if lanes.is_empty() {
                    eprintln!("unknown property {}", prop);
                    std::process::exit(2);
                }
                for l in lanes {
                    if let Some(o) = &only {
                        if !o.iter().any(|x| x == l.name) {
                            continue;
                        }
                    }
                    ctx.lane = l.name.to_string();
                    let n = (l.count)(&ctx);
                    let (lo, hi) = range.unwrap_or((0, n));
                    let mut done = 0u64;
                    let t0 = std::time::Instant::now();
                    if let Some(k) = sample {
                        // sanitizer tiers: a reproducible random sample of the lane's index space
                        let mut x = rt::fnv(format!("{}|{}|{}|{}", seed, prop, l.name, shard.0).as_bytes());
                        for _ in 0..k.min(n) {
                            if t0.elapsed().as_millis() > max_ms {
                                ctx.add(&format!("stopped-by-time:{}", l.name), 1);
                                break;
                            }
                            let idx = rt::splitmix(&mut x) % n;
                            ctx.idx = idx;
                            ctx.inflight.set(l.name, idx);
                            rt::set_live_cap(CASE_LIVE_CAP);
                            run_case(&mut ctx, l.run, idx);
                            done += 1;
                        }
                    } else {
                        let mut idx = lo;
                        while idx < hi.min(n) {
                            if range.is_none() && (idx / BLOCK) % shard.1 != shard.0 {
                                idx = (idx / BLOCK + 1) * BLOCK;
                                continue;
                            }
                            if t0.elapsed().as_millis() > max_ms {
                                ctx.add(&format!("stopped-by-time:{}", l.name), 1);
                                break;
                            }
                            ctx.idx = idx;
                            ctx.inflight.set(l.name, idx);
                            rt::set_live_cap(CASE_LIVE_CAP);
                            run_case(&mut ctx, l.run, idx);
                            done += 1;
                            idx += 1;
                        }
                    }
                    ctx.inflight.clear();
                    ctx.add(&format!("cases:{}", l.name), done);
                    ctx.add(&format!("ms:{}", l.name), t0.elapsed().as_millis() as u64);
                }
                rt::set_live_cap(usize::MAX / 2);
                // what the hooks saw on this worker: lexer (state x character class) transitions, parser recovery branches
                const CLASSES: [&str; 10] = ["colon", "LF", "CR", "SP", "TAB", "hash", "dash", "graphic", "ascii-other", "non-ascii"];
                for ((sol, colon, indent, class), n) in deb822_lossless::verif::take_lex_transitions() {
                    let key = format!("hook:lex:{}{}{}:{}", if sol { "line-start" } else { "in-line" }, if colon { "+colon-seen" } else { "" }, if indent { "+indented" } else { "" }, CLASSES[class as usize]);
                    ctx.add(&key, n);
                }
                for (name, n) in deb822_lossless::verif::take_branches() {
                    ctx.add(&format!("hook:branch:{}", name), n);
                }
                if !out.is_empty() {
                    let mut b = Vec::with_capacity(ctx.hashes.len() * 8);
                    for h in &ctx.hashes {
                        b.extend_from_slice(&h.to_le_bytes());
                    }
                    let _ = std::fs::write(format!("{}.hashes", out), b);
                }
                ctx.finish();
            });
        }
        _ => usage(),
    }
}

/// Run one case; a panic escaping the monitor's own guards is reported as a
/// violation with a generic signature (it is either a panic of the code under
/// test in a place the monitor did not expect, or a harness bug — both must be seen).
fn run_case(ctx: &mut Ctx, f: fn(&mut Ctx, u64), idx: u64) {
    rt::CASE_SEQ.fetch_add(1, std::sync::atomic::Ordering::Relaxed);
    let r = rt::guard_steps(u64::MAX, || f(ctx, idx));
    if let Err(fail) = r {
        let sig = format!("unguarded-{}|{}|-", fail.class(), ctx.lane);
        ctx.violation(&sig, fail.json());
    }
}
