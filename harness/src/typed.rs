//! Field tables of the typed paragraph kinds (structs deriving the paragraph
//! conversions), with values in the canonical form the types print, and a
//! uniform dynamic interface over both paragraph back-ends.
use crate::rt::Rng;
use deb822_lossless::lossy;
use deb822_lossless::{FromDeb822Paragraph, Paragraph, ToDeb822Paragraph};

pub struct FieldSpec {
    pub name: &'static str,
    pub mandatory: bool,
    /// valid values in canonical (printed) form
    pub values: &'static [&'static str],
    /// a value the field's type must refuse (None: every text is acceptable)
    pub invalid: Option<&'static str>,
}

const fn f(name: &'static str, mandatory: bool, values: &'static [&'static str], invalid: Option<&'static str>) -> FieldSpec {
    FieldSpec { name, mandatory, values, invalid }
}

const TEXT: &[&str] = &["foo", "two words", "é漢 x", "a:b #c"];
const MULTI: &[&str] = &["short description", "short\nlong line one\n.\nlong line two", "x\ny"];
const RELS: &[&str] = &[
    "libc6 (>= 2.14), libgcc1",
    "a | b (<< 1:2.0~rc1), c [amd64 !i386] <!nocheck>",
    "debhelper-compat (= 13)",
    // restriction groups that mix negated and plain terms, in both orders and in several groups
    "gcc-cross <!stage1 cross>, d <cross !nocheck> <!a b !c>",
    // qualified names with and without further parts
    "python3:any, perl:native (>= 5.10) | e:amd64 [!hurd-i386 linux-any]",
];
const URLS: &[&str] = &["https://example.com/", "http://bugs.debian.org/510219", "https://salsa.debian.org/x/y"];
const PRIO: &[&str] = &["optional", "required", "extra"];
const YESNO: &[&str] = &["yes", "no"];
// yes/no fields are written yes/no in every Debian format; the lossy Release type prints true/false (pinned by a
// unit test of the repository) and reads both
const FLAG: &[&str] = &["yes", "no", "true", "false"];
const VERSIONS: &[&str] = &["1.0-1", "2:1.2.3~rc1-1+b2", "0.9"];
const NUMS: &[&str] = &["0", "3524", "4294967295"];
const WORDS: &[&str] = &["main contrib non-free", "amd64", "stable"];
const LINES: &[&str] = &["a deb utils optional arch=any", "a deb utils optional\nb udeb debian-installer extra", "one"];
const DATE: &[&str] = &["Thu, 23 Apr 2020 17:19:19 UTC", "Mon, 01 Jan 2024 00:00:00 +0000"];
const VCS: &[&str] = &["https://salsa.debian.org/x/y.git", "https://salsa.debian.org/x/y.git -b debian/sid", "https://e.org/r.git -b main [sub/dir]"];
const MULTIARCH: &[&str] = &["same", "foreign", "no", "allowed"];

pub static CONTROL_SOURCE: &[FieldSpec] = &[
    f("Source", true, &["foo", "libbar2.0"], None),
    f("Build-Depends", false, RELS, Some("a (")),
    f("Build-Depends-Indep", false, RELS, Some("a [")),
    f("Build-Depends-Arch", false, RELS, Some("a (>= ")),
    f("Build-Conflicts", false, RELS, Some("|")),
    f("Build-Conflicts-Indep", false, RELS, Some("a <")),
    f("Build-Conflicts-Arch", false, RELS, Some("a (=")),
    f("Standards-Version", false, &["4.6.2"], None),
    f("Homepage", false, URLS, Some("not a url")),
    f("Section", false, &["libs", "non-free/utils", ""], None),
    f("Priority", false, PRIO, Some("bogus")),
    f("Maintainer", false, &["Joe Example <joe@example.com>"], None),
    f("Uploaders", false, &["Ann <a@e.org>, Bob <b@e.org>"], None),
    f("Architecture", false, &["any", "all"], None),
    f("Rules-Requires-Root", false, YESNO, Some("binary-targets")),
    f("Testsuite", false, &["autopkgtest", ""], None),
    f("Vcs-Git", false, VCS, None),
    f("Vcs-Browser", false, URLS, Some("::")),
];

pub static CONTROL_BINARY: &[FieldSpec] = &[
    f("Package", true, &["foo", "libbar-dev"], None),
    f("Depends", false, RELS, Some("a (")),
    f("Recommends", false, RELS, Some("a [")),
    f("Suggests", false, RELS, Some("|")),
    f("Enhances", false, RELS, Some("a <")),
    f("Pre-Depends", false, RELS, Some("(")),
    f("Breaks", false, RELS, Some("a (<< ")),
    f("Conflicts", false, RELS, Some("a (")),
    f("Replaces", false, RELS, Some("a (")),
    f("Provides", false, RELS, Some("a (")),
    f("Built-Using", false, RELS, Some("a (")),
    f("Architecture", false, &["any", "linux-any"], None),
    f("Section", false, &["libs"], None),
    f("Priority", false, PRIO, Some("Optional")),
    f("Multi-Arch", false, MULTIARCH, Some("yes")),
    f("Essential", false, YESNO, Some("true")),
    f("Description", false, MULTI, None),
];

pub static APT_RELEASE: &[FieldSpec] = &[
    f("Codename", true, &["focal", "sid"], None),
    f("Components", true, WORDS, None),
    f("Architectures", true, &["amd64 arm64", "i386"], None),
    f("Description", true, &["Ubuntu 20.04 LTS"], None),
    f("Origin", true, &["Ubuntu", "Debian"], None),
    f("Label", true, &["Ubuntu"], None),
    f("Suite", true, &["focal", "unstable"], None),
    f("Version", true, &["20.04", "12"], None),
    f("Date", true, DATE, None),
    f("NotAutomatic", true, FLAG, Some("maybe")),
    f("ButAutomaticUpgrades", true, FLAG, Some("1")),
    f("Acquire-By-Hash", true, FLAG, Some("")),
];

pub static APT_SOURCE: &[FieldSpec] = &[
    f("Directory", true, &["pool/main/c/cvsd"], None),
    f("Description", false, MULTI, None),
    f("Version", true, VERSIONS, Some("not a version!")),
    f("Package", true, &["cvsd", "foo"], None),
    f("Binary", false, &["cvsd", "a, b, c", "libabsl-dev, libabsl20240722", "a, b,\nc", "a,b", "x,\ny,\nz"], None),
    f("Maintainer", false, &["Arthur de Jong <adejong@debian.org>"], None),
    f("Build-Depends", false, &["debhelper (>= 9), po-debconf"], None),
    f("Build-Depends-Indep", false, RELS, Some("a (")),
    f("Build-Conflicts", false, RELS, Some("a [")),
    f("Build-Conflicts-Indep", false, RELS, Some("a <")),
    f("Standards-Version", false, &["3.9.3"], None),
    f("Homepage", false, &["http://arthurdejong.org/cvsd/"], None),
    f("Autobuild", false, YESNO, Some("true")),
    f("Testsuite", false, &["autopkgtest"], None),
    f("Vcs-Browser", false, &["http://arthurdejong.org/viewvc/cvsd/"], None),
    f("Vcs-Git", false, &["https://e.org/x.git"], None),
    f("Vcs-Bzr", false, &["lp:foo"], None),
    f("Vcs-Hg", false, &["https://e.org/hg"], None),
    f("Vcs-Svn", false, &["svn://e.org/x"], None),
    f("Vcs-Darcs", false, &["http://e.org/darcs"], None),
    f("Vcs-Cvs", false, &[":pserver:anonymous@arthurdejong.org:/arthur/"], None),
    f("Vcs-Arch", false, &["x"], None),
    f("Vcs-Mtn", false, &["y"], None),
    f("Priority", false, PRIO, Some("source")),
    f("Section", false, &["vcs"], None),
    f("Format", false, &["3.0 (native)", "1.0"], None),
    f("Package-List", true, LINES, None),
];

pub static APT_PACKAGE: &[FieldSpec] = &[
    f("Package", true, &["apt", "foo"], None),
    f("Version", true, VERSIONS, Some("1 2")),
    f("Architecture", true, &["amd64", "all"], None),
    f("Maintainer", false, &["APT Development Team <apt@lists.debian.org>"], None),
    f("Installed-Size", false, NUMS, Some("-1")),
    f("Depends", false, RELS, Some("a (")),
    f("Pre-Depends", false, RELS, Some("a (")),
    f("Recommends", false, RELS, Some("a [")),
    f("Suggests", false, RELS, Some("a <")),
    f("Enhances", false, RELS, Some("|")),
    f("Breaks", false, RELS, Some("a (")),
    f("Conflicts", false, RELS, Some("a (")),
    f("Provides", false, RELS, Some("a (")),
    f("Replaces", false, RELS, Some("a (")),
    f("Built-Using", false, RELS, Some("a (")),
    f("Description", false, MULTI, None),
    f("Homepage", false, &["https://wiki.debian.org/Apt"], None),
    f("Priority", false, PRIO, Some("high")),
    f("Section", false, &["admin", ""], None),
    f("Essential", false, YESNO, Some("true")),
    f("Tag", false, &["admin::package-management, role::program", ""], None),
    f("Size", false, NUMS, Some("12k")),
    f("MD5sum", false, &["d41d8cd98f00b204e9800998ecf8427e"], None),
    f("SHA256", false, &["e3b0c44298fc1c149afbf4c8996fb92427ae41e4649b934ca495991b7852b855"], None),
    f("Description-md5", false, &["0123456789abcdef0123456789abcdef"], None),
];

pub static BUILDINFO: &[FieldSpec] = &[
    f("Format", true, &["1.0"], None),
    f("Build-Architecture", true, &["amd64"], None),
    f("Source", true, &["ruff", "foo (1.0-1)"], None),
    f("Binary", false, &["ruff", "a b"], None),
    f("Architecture", true, &["amd64 source", "all"], None),
    f("Version", true, VERSIONS, Some("bad version")),
    f("Binary-Only-Changes", false, MULTI, None),
    f("Checksums-Sha256", false, &["e3b0c4 12 a.deb", "e3b0c4 12 a.deb\nabcdef 0 b.deb"], None),
    f("Checksums-Sha1", false, &["da39a3 12 a.deb"], None),
    f("Checksums-Md5", false, &["d41d8c 12 a.deb"], None),
    f("Build-Origin", false, &["Debian"], None),
    f("Build-Date", false, DATE, None),
    f("Build-Tainted-By", false, &["merged-usr-via-aliased-dirs", "a\nb"], None),
    f("Build-Path", false, &["/build/ruff-1.0", "relative/p"], None),
    f("Environment", false, &["DEB_BUILD_OPTIONS=\"parallel=4\"\nLANG=\"C.UTF-8\"", "A=1"], Some("no-equals-sign")),
    f("Installed-Build-Depends", false, RELS, Some("a (")),
];

pub static REMOVAL: &[FieldSpec] = &[
    f("Date", true, DATE, None),
    f("Suite", false, &["unstable", ""], None),
    f("Ftpmaster", true, &["Joe Example"], None),
    f("Sources", false, &["foo_1.0-1", "foo_1.0-1\nbar_2.0"], None),
    f("Binaries", false, &["foo_1.0-1 [amd64]", "a_1 [all]\nb_2 [i386]"], None),
    f("Reason", true, &["RoQA; orphaned", "two\nlines"], None),
    f("Bug", false, &["123456", "0"], Some("#123")),
];

pub static COPYRIGHT_HEADER: &[FieldSpec] = &[
    f("Format", true, &["https://www.debian.org/doc/packaging-manuals/copyright-format/1.0/"], None),
    f("Files-Excluded", false, &["vendor/*", "a\nb/*"], None),
    f("Source", false, &["https://example.com/foo"], None),
    f("Upstream-Contact", false, &["Joe Bloggs <joe@example.com>"], None),
];

pub static COPYRIGHT_FILES: &[FieldSpec] = &[
    f("Files", true, &["*", "debian/*", "src/*\nlib/?.c"], None),
    f("License", true, &["GPL-3+", "MIT\nPermission is hereby granted\n.\nmore"], None),
    f("Copyright", true, &["2020 Joe Bloggs <joe@example.com>", "2019 A\n2020 B"], None),
    f("Comment", false, &["Debian packaging is licensed under the GPL-3+."], None),
];

pub static COPYRIGHT_LICENSE: &[FieldSpec] = &[
    f("License", true, &["GPL-3+\nThis program is free software\n.\nmore", "MIT\ntext"], None),
    f("Comment", false, TEXT, None),
];

pub static DEP3: &[FieldSpec] = &[
    f("Origin", false, &["upstream, commit:abc123", "vendor, https://e.org/p.patch", "https://e.org/x", "commit:deadbeef", "backport, 2.0", "vendor", "upstream"], None),
    f("Forwarded", false, &["no", "not-needed", "https://lists.example.com/1234.html"], None),
    f("Author", false, &["John Doe <johndoe-guest@users.alioth.debian.org>"], None),
    f("Reviewed-by", false, &["Ann <a@e.org>"], None),
    f("Bug-Debian", false, &["http://bugs.debian.org/510219"], Some("not a url")),
    f("Last-Update", false, &["2006-12-21", "2024-02-29"], Some("2006-13-45")),
    f("Applied-Upstream", false, &["commit:abc", "2.0", "https://e.org/commit/1"], None),
    f("Bug", false, &["http://sourceware.org/bugzilla/show_bug.cgi?id=9697"], Some("::nope")),
    f("Description", false, MULTI, None),
];

pub static APT_SOURCES: &[FieldSpec] = &[
    f("Enabled", false, YESNO, Some("true")),
    f("Types", true, &["deb", "deb-src", "deb\ndeb-src"], Some("rpm")),
    f("URIs", true, &["https://deb.debian.org/debian", "http://ports.ubuntu.com/ http://archive.ubuntu.com/ubuntu"], Some("not a uri")),
    f("Suites", true, &["noble", "stable stable-updates"], None),
    f("Components", true, &["main", "main contrib"], None),
    f("Architectures", true, &["arm64", "amd64 i386"], None),
    f("Languages", false, &["en de"], None),
    f("Targets", false, &["Packages"], None),
    f("PDiffs", false, YESNO, Some("maybe")),
    f("By-Hash", false, &["yes", "no", "force"], Some("true")),
    f("Allow-Insecure", false, YESNO, Some("maybe")),
    f("Allow-Weak", false, YESNO, Some("maybe")),
    f("Allow-Downgrade-To-Insecure", false, YESNO, Some("maybe")),
    f("Trusted", false, YESNO, Some("false")),
    f("Signed-By", false, &["/usr/share/keyrings/ubuntu-archive-keyring.gpg", "\n-----BEGIN PGP PUBLIC KEY BLOCK-----\n.\nmDMEY865UxYJ\n=5NZE\n-----END PGP PUBLIC KEY BLOCK-----"], None),
    f("X-Repolib-Name", false, &["Pop_OS System Sources", ""], None),
    f("Description", false, MULTI, None),
];

pub struct Kind {
    pub name: &'static str,
    pub fields: &'static [FieldSpec],
}

pub static KINDS: [Kind; 12] = [
    Kind { name: "control::lossy::Source", fields: CONTROL_SOURCE },
    Kind { name: "control::lossy::Binary", fields: CONTROL_BINARY },
    Kind { name: "control::lossy::apt::Release", fields: APT_RELEASE },
    Kind { name: "control::lossy::apt::Source", fields: APT_SOURCE },
    Kind { name: "control::lossy::apt::Package", fields: APT_PACKAGE },
    Kind { name: "control::lossy::Buildinfo", fields: BUILDINFO },
    Kind { name: "control::lossy::Removal", fields: REMOVAL },
    Kind { name: "copyright::lossy::Header", fields: COPYRIGHT_HEADER },
    Kind { name: "copyright::lossy::FilesParagraph", fields: COPYRIGHT_FILES },
    Kind { name: "copyright::lossy::LicenseParagraph", fields: COPYRIGHT_LICENSE },
    Kind { name: "dep3::lossy::PatchHeader", fields: DEP3 },
    Kind { name: "apt_sources::Repository", fields: APT_SOURCES },
];

/// A typed value seen through both paragraph back-ends.
pub trait Typed {
    fn to_lossy(&self) -> lossy::Paragraph;
    fn to_lossless(&self) -> Paragraph;
    fn update_lossy(&self, p: &mut lossy::Paragraph);
    fn update_lossless(&self, p: &mut Paragraph);
}

impl<T> Typed for T
where
    T: ToDeb822Paragraph<lossy::Paragraph> + ToDeb822Paragraph<Paragraph>,
{
    fn to_lossy(&self) -> lossy::Paragraph {
        ToDeb822Paragraph::<lossy::Paragraph>::to_paragraph(self)
    }
    fn to_lossless(&self) -> Paragraph {
        ToDeb822Paragraph::<Paragraph>::to_paragraph(self)
    }
    fn update_lossy(&self, p: &mut lossy::Paragraph) {
        ToDeb822Paragraph::<lossy::Paragraph>::update_paragraph(self, p)
    }
    fn update_lossless(&self, p: &mut Paragraph) {
        ToDeb822Paragraph::<Paragraph>::update_paragraph(self, p)
    }
}

fn boxed<T: Typed + 'static>(r: Result<T, String>) -> Result<Box<dyn Typed>, String> {
    r.map(|v| Box::new(v) as Box<dyn Typed>)
}

macro_rules! from_both {
    ($ty:ty, $lossy:expr, $lossless:expr) => {
        match ($lossy, $lossless) {
            (Some(p), _) => boxed(<$ty as FromDeb822Paragraph<lossy::Paragraph>>::from_paragraph(p)),
            (_, Some(p)) => boxed(<$ty as FromDeb822Paragraph<Paragraph>>::from_paragraph(p)),
            _ => unreachable!(),
        }
    };
}

/// `from_paragraph` of kind `k` on a lossy or a lossless paragraph.
pub fn from_paragraph(k: usize, pl: Option<&lossy::Paragraph>, pll: Option<&Paragraph>) -> Result<Box<dyn Typed>, String> {
    match k {
        0 => from_both!(debian_control::lossy::Source, pl, pll),
        1 => from_both!(debian_control::lossy::Binary, pl, pll),
        2 => from_both!(debian_control::lossy::apt::Release, pl, pll),
        3 => from_both!(debian_control::lossy::apt::Source, pl, pll),
        4 => from_both!(debian_control::lossy::apt::Package, pl, pll),
        5 => from_both!(debian_control::lossy::buildinfo::Buildinfo, pl, pll),
        6 => from_both!(debian_control::lossy::ftpmaster::Removal, pl, pll),
        7 => from_both!(debian_copyright::lossy::Header, pl, pll),
        8 => from_both!(debian_copyright::lossy::FilesParagraph, pl, pll),
        9 => from_both!(debian_copyright::lossy::LicenseParagraph, pl, pll),
        10 => from_both!(dep3::lossy::PatchHeader, pl, pll),
        _ => from_both!(apt_sources::Repository, pl, pll),
    }
}

/// Generate the (name, value) pairs of a valid paragraph of kind `k`:
/// all mandatory fields, each optional one with probability 1/2, in table order.
pub fn gen_pairs(r: &mut Rng, k: usize) -> Vec<(String, String)> {
    let mut v = vec![];
    for fs in KINDS[k].fields {
        if fs.mandatory || r.chance(1, 2) {
            v.push((fs.name.to_string(), r.pick_s(fs.values).to_string()));
        }
    }
    v
}

pub fn items_lossy(p: &lossy::Paragraph) -> Vec<(String, String)> {
    p.iter().map(|(k, v)| (k.to_string(), v.to_string())).collect()
}
pub fn items_lossless(p: &Paragraph) -> Vec<(String, String)> {
    p.items().collect()
}

/// The text a typed value prints for a field value read from a file, where the type has a spelling of its own:
/// the lossy Release type reads yes/no (the file format) and true/false, and prints true/false.
pub fn canon_text(kind: &str, field: &str, v: &str) -> String {
    if kind.ends_with("apt::Release") && matches!(field, "NotAutomatic" | "ButAutomaticUpgrades" | "Acquire-By-Hash") {
        return match v.trim() {
            "yes" => "true".to_string(),
            "no" => "false".to_string(),
            o => o.to_string(),
        };
    }
    // the Sources `Binary` list may be folded or written without blanks; the type prints it "a, b, c"
    if kind.ends_with("apt::Source") && field == "Binary" {
        return v.split(|c: char| c == ',' || c.is_whitespace()).filter(|x| !x.is_empty()).collect::<Vec<_>>().join(", ");
    }
    v.to_string()
}
