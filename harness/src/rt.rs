//! Runtime support for the monitors: PRNG, counting allocator, guarded
//! execution (panic capture, step and allocation budgets), event log,
//! counters, coverage and the in-flight slot.
use serde_json::{json, Value};
use std::alloc::{GlobalAlloc, Layout, System};
use std::cell::RefCell;
use std::collections::{BTreeMap, HashSet};
use std::io::Write;
use std::panic::{catch_unwind, AssertUnwindSafe};
use std::sync::atomic::{AtomicU64, AtomicUsize, Ordering};

// ---------------------------------------------------------------- allocator

/// Counting allocator. It keeps counters only (no addresses), so it hides
/// nothing from ASan/memcheck. Refuses (returns null) when more than
/// `LIVE_CAP` bytes are live, which aborts the process through
/// `handle_alloc_error`; the driver attributes the abort to the in-flight case.
pub struct CountingAlloc;

static ALLOC_BYTES: AtomicU64 = AtomicU64::new(0);
static ALLOC_CALLS: AtomicU64 = AtomicU64::new(0);
static LIVE: AtomicUsize = AtomicUsize::new(0);
static LIVE_CAP: AtomicUsize = AtomicUsize::new(usize::MAX);

unsafe impl GlobalAlloc for CountingAlloc {
    unsafe fn alloc(&self, l: Layout) -> *mut u8 {
        let live = LIVE.fetch_add(l.size(), Ordering::Relaxed) + l.size();
        if live > LIVE_CAP.load(Ordering::Relaxed) {
            LIVE.fetch_sub(l.size(), Ordering::Relaxed);
            return std::ptr::null_mut();
        }
        ALLOC_BYTES.fetch_add(l.size() as u64, Ordering::Relaxed);
        ALLOC_CALLS.fetch_add(1, Ordering::Relaxed);
        System.alloc(l)
    }
    unsafe fn dealloc(&self, p: *mut u8, l: Layout) {
        LIVE.fetch_sub(l.size(), Ordering::Relaxed);
        System.dealloc(p, l)
    }
    unsafe fn realloc(&self, p: *mut u8, l: Layout, new: usize) -> *mut u8 {
        if new > l.size() {
            let d = new - l.size();
            let live = LIVE.fetch_add(d, Ordering::Relaxed) + d;
            if live > LIVE_CAP.load(Ordering::Relaxed) {
                LIVE.fetch_sub(d, Ordering::Relaxed);
                return std::ptr::null_mut();
            }
            ALLOC_BYTES.fetch_add(d as u64, Ordering::Relaxed);
        } else {
            LIVE.fetch_sub(l.size() - new, Ordering::Relaxed);
        }
        ALLOC_CALLS.fetch_add(1, Ordering::Relaxed);
        System.realloc(p, l, new)
    }
}

pub fn set_live_cap(bytes: usize) {
    let live = LIVE.load(Ordering::Relaxed);
    LIVE_CAP.store(live.saturating_add(bytes), Ordering::Relaxed);
}
pub fn alloc_snapshot() -> (u64, u64) {
    (ALLOC_BYTES.load(Ordering::Relaxed), ALLOC_CALLS.load(Ordering::Relaxed))
}

// ---------------------------------------------------------------- per-case CPU watchdog

/// incremented by the worker at the start of every case
pub static CASE_SEQ: AtomicU64 = AtomicU64::new(0);
pub const EXIT_CASE_TIMEOUT: i32 = 86;

#[cfg(not(miri))]
fn process_cpu_ms() -> u64 {
    let mut ts = libc::timespec { tv_sec: 0, tv_nsec: 0 };
    unsafe { libc::clock_gettime(libc::CLOCK_PROCESS_CPUTIME_ID, &mut ts) };
    ts.tv_sec as u64 * 1000 + ts.tv_nsec as u64 / 1_000_000
}

/// A thread that ends the process (exit code 86) when one case has consumed
/// more than `VMON_CASE_CPU_S` (default 10) CPU-seconds: a hang that the step
/// hooks do not see. CPU time, not wall-clock, so a loaded machine cannot trip
/// it. The driver replays the in-flight case alone before calling it a violation.
pub fn start_case_watchdog() {
    #[cfg(not(miri))]
    {
        let limit_ms: u64 = std::env::var("VMON_CASE_CPU_S").ok().and_then(|v| v.parse::<u64>().ok()).unwrap_or(10) * 1000;
        std::thread::spawn(move || {
            let mut last_seq = u64::MAX;
            let mut cpu_at_change = process_cpu_ms();
            loop {
                std::thread::sleep(std::time::Duration::from_millis(200));
                let seq = CASE_SEQ.load(Ordering::Relaxed);
                let now = process_cpu_ms();
                if seq != last_seq {
                    last_seq = seq;
                    cpu_at_change = now;
                } else if now.saturating_sub(cpu_at_change) > limit_ms {
                    eprintln!("vmon: case {} exceeded {} CPU-ms (watchdog)", seq, limit_ms);
                    unsafe { libc::_exit(EXIT_CASE_TIMEOUT) };
                }
            }
        });
    }
}

// ---------------------------------------------------------------- PRNG

/// xoshiro256** seeded through splitmix64.
#[derive(Clone)]
pub struct Rng([u64; 4]);

pub fn splitmix(x: &mut u64) -> u64 {
    *x = x.wrapping_add(0x9E3779B97F4A7C15);
    let mut z = *x;
    z = (z ^ (z >> 30)).wrapping_mul(0xBF58476D1CE4E5B9);
    z = (z ^ (z >> 27)).wrapping_mul(0x94D049BB133111EB);
    z ^ (z >> 31)
}

pub fn fnv(s: &[u8]) -> u64 {
    let mut h: u64 = 0xcbf29ce484222325;
    for b in s {
        h ^= *b as u64;
        h = h.wrapping_mul(0x100000001b3);
    }
    // final avalanche
    let mut x = h;
    splitmix(&mut x)
}

impl Rng {
    pub fn new(seed: u64) -> Rng {
        let mut x = seed;
        Rng([splitmix(&mut x), splitmix(&mut x), splitmix(&mut x), splitmix(&mut x)])
    }
    /// Independent stream for one case: (seed, property, lane, index).
    pub fn for_case(seed: u64, prop: &str, lane: &str, idx: u64) -> Rng {
        let k = fnv(format!("{}|{}|{}|{}", seed, prop, lane, idx).as_bytes());
        Rng::new(k)
    }
    pub fn next(&mut self) -> u64 {
        let s = &mut self.0;
        let r = s[1].wrapping_mul(5).rotate_left(7).wrapping_mul(9);
        let t = s[1] << 17;
        s[2] ^= s[0];
        s[3] ^= s[1];
        s[1] ^= s[2];
        s[0] ^= s[3];
        s[2] ^= t;
        s[3] = s[3].rotate_left(45);
        r
    }
    /// uniform in 0..n (n>0)
    pub fn below(&mut self, n: usize) -> usize {
        (self.next() % (n as u64)) as usize
    }
    pub fn range(&mut self, lo: usize, hi_incl: usize) -> usize {
        lo + self.below(hi_incl - lo + 1)
    }
    pub fn chance(&mut self, num: usize, den: usize) -> bool {
        self.below(den) < num
    }
    pub fn pick_s<'a>(&mut self, xs: &[&'a str]) -> &'a str {
        xs[self.below(xs.len())]
    }
    pub fn pick<'a, T>(&mut self, xs: &'a [T]) -> &'a T {
        &xs[self.below(xs.len())]
    }
}

// ---------------------------------------------------------------- panic capture

thread_local! {
    static LAST_PANIC: RefCell<Option<(String, String, u32)>> = const { RefCell::new(None) };
}

pub fn install_panic_hook() {
    std::panic::set_hook(Box::new(|info| {
        let msg = if let Some(s) = info.payload().downcast_ref::<&str>() {
            s.to_string()
        } else if let Some(s) = info.payload().downcast_ref::<String>() {
            s.clone()
        } else {
            "<non-string panic>".to_string()
        };
        let (file, line) = info
            .location()
            .map(|l| (l.file().to_string(), l.line()))
            .unwrap_or_default();
        LAST_PANIC.with(|p| *p.borrow_mut() = Some((msg, file, line)));
    }));
}

#[derive(Debug, Clone)]
pub struct Failure {
    /// "panic" | "step-budget"
    pub kind: &'static str,
    pub msg: String,
    pub file: String,
    pub line: u32,
}

impl Failure {
    /// Stable class of a panic: kind + the crate-relative source file (no line numbers).
    pub fn class(&self) -> String {
        if self.kind == "step-budget" {
            return "step-budget".to_string();
        }
        let f = self.file.as_str();
        let f = f.strip_prefix("/repo/").unwrap_or(f);
        let f = if let Some(i) = f.find("/registry/src/") {
            // dependency: keep crate dir + file name
            let rest = &f[i + "/registry/src/".len()..];
            let mut it = rest.splitn(2, '/');
            it.next();
            it.next().unwrap_or(rest).to_string()
        } else if f.starts_with("/rustc/") || f.contains("/library/") {
            format!("std:{}", f.rsplit('/').next().unwrap_or(f))
        } else {
            f.to_string()
        };
        let what = if self.msg.starts_with("assertion") {
            "assertion"
        } else if self.msg.contains("unwrap()") && self.msg.contains("None") {
            "unwrap-none"
        } else if self.msg.contains("unwrap()") {
            "unwrap-err"
        } else if self.msg.contains("byte index") || self.msg.contains("char boundary") {
            "str-index"
        } else if self.msg.contains("index out of bounds") || self.msg.contains("out of range") {
            "index"
        } else if self.msg.contains("overflow") {
            "overflow"
        } else if self.msg.contains("unreachable") {
            "unreachable"
        } else if self.msg.contains("not yet implemented") || self.msg.contains("not implemented") {
            "todo"
        } else {
            "other"
        };
        format!("panic:{}@{}", what, f)
    }
    pub fn json(&self) -> Value {
        json!({"kind": self.kind, "msg": self.msg, "file": self.file, "line": self.line})
    }
}

/// Per-call resource measurements of the last `guard`.
#[derive(Default, Clone, Copy, Debug)]
pub struct Cost {
    pub steps: u64,
    pub bytes: u64,
    pub allocs: u64,
}

thread_local! {
    static LAST_COST: RefCell<Cost> = const { RefCell::new(Cost{steps:0,bytes:0,allocs:0}) };
}
pub fn last_cost() -> Cost {
    LAST_COST.with(|c| *c.borrow())
}

/// Default step budget for a call on `len` bytes of input.
pub fn step_budget(len: usize) -> u64 {
    // linear part for short inputs + quadratic allowance ("small polynomial"):
    // a loop that stops consuming input exceeds any such bound.
    let l = len as u64 + 16;
    256 * l + 4 * l * l
}

/// Execute `f` with the step budget armed; capture panics.
pub fn guard_steps<T>(limit: u64, f: impl FnOnce() -> T) -> Result<T, Failure> {
    LAST_PANIC.with(|p| *p.borrow_mut() = None);
    let (b0, c0) = alloc_snapshot();
    deb822_lossless::verif::arm(limit);
    let r = catch_unwind(AssertUnwindSafe(f));
    let steps = deb822_lossless::verif::steps();
    deb822_lossless::verif::arm(u64::MAX);
    let (b1, c1) = alloc_snapshot();
    LAST_COST.with(|c| *c.borrow_mut() = Cost { steps, bytes: b1 - b0, allocs: c1 - c0 });
    match r {
        Ok(v) => Ok(v),
        Err(_) => {
            let (msg, file, line) = LAST_PANIC
                .with(|p| p.borrow_mut().take())
                .unwrap_or_else(|| ("<unknown>".into(), String::new(), 0));
            let kind = if msg.contains(deb822_lossless::verif::STEP_LIMIT_MARKER) {
                "step-budget"
            } else {
                "panic"
            };
            Err(Failure { kind, msg, file, line })
        }
    }
}

/// `guard_steps` with the default budget for an input of `len` bytes.
pub fn guard<T>(len: usize, f: impl FnOnce() -> T) -> Result<T, Failure> {
    guard_steps(step_budget(len), f)
}

// ---------------------------------------------------------------- in-flight slot

/// A MAP_SHARED page backed by a file: a plain memory store tells the driver
/// which case was executing when the process died.
pub struct Inflight {
    ptr: *mut u8,
}
const INFLIGHT_SIZE: usize = 4096;

impl Inflight {
    pub fn open(path: &str) -> Inflight {
        #[cfg(not(miri))]
        unsafe {
            let c = std::ffi::CString::new(path).unwrap();
            let fd = libc::open(c.as_ptr(), libc::O_RDWR | libc::O_CREAT | libc::O_TRUNC, 0o644);
            if fd >= 0 && libc::ftruncate(fd, INFLIGHT_SIZE as i64) == 0 {
                let p = libc::mmap(
                    std::ptr::null_mut(),
                    INFLIGHT_SIZE,
                    libc::PROT_READ | libc::PROT_WRITE,
                    libc::MAP_SHARED,
                    fd,
                    0,
                );
                libc::close(fd);
                if p != libc::MAP_FAILED {
                    return Inflight { ptr: p as *mut u8 };
                }
            }
        }
        let _ = path;
        Inflight { ptr: std::ptr::null_mut() }
    }
    pub fn none() -> Inflight {
        Inflight { ptr: std::ptr::null_mut() }
    }
    /// record "lane idx" (ASCII, NUL-terminated)
    pub fn set(&self, lane: &str, idx: u64) {
        if self.ptr.is_null() {
            return;
        }
        let mut buf = [0u8; 128];
        let mut n = 0;
        for b in lane.bytes().take(90) {
            buf[n] = b;
            n += 1;
        }
        buf[n] = b' ';
        n += 1;
        let s = idx.to_string();
        for b in s.bytes() {
            buf[n] = b;
            n += 1;
        }
        buf[n] = 0;
        unsafe {
            std::ptr::copy_nonoverlapping(buf.as_ptr(), self.ptr, n + 1);
        }
    }
    pub fn clear(&self) {
        if !self.ptr.is_null() {
            unsafe { std::ptr::write_volatile(self.ptr, 0) }
        }
    }
}

// ---------------------------------------------------------------- context

pub struct Ctx {
    pub prop: String,
    pub tier: String,
    pub seed: u64,
    pub lane: String,
    pub idx: u64,
    pub out: Box<dyn Write>,
    pub counters: BTreeMap<String, u64>,
    pub maxima: BTreeMap<String, f64>,
    pub hashes: HashSet<u64>,
    /// distinct non-trivial cases counted exactly by construction (sweeps)
    pub distinct_exact: u64,
    pub violations: u64,
    viol_per_sig: BTreeMap<String, u64>,
    samples_per_lane: BTreeMap<String, u64>,
    pub replay_mode: bool,
    pub inflight: Inflight,
}

impl Ctx {
    pub fn new(prop: &str, tier: &str, seed: u64, out: Box<dyn Write>) -> Ctx {
        Ctx {
            prop: prop.to_string(),
            tier: tier.to_string(),
            seed,
            lane: String::new(),
            idx: 0,
            out,
            counters: BTreeMap::new(),
            maxima: BTreeMap::new(),
            hashes: HashSet::new(),
            distinct_exact: 0,
            violations: 0,
            viol_per_sig: BTreeMap::new(),
            samples_per_lane: BTreeMap::new(),
            replay_mode: false,
            inflight: Inflight::none(),
        }
    }
    pub fn rng(&self) -> Rng {
        Rng::for_case(self.seed, &self.prop, &self.lane, self.idx)
    }
    pub fn thorough(&self) -> bool {
        self.tier == "thorough"
    }
    pub fn count(&mut self, key: &str) {
        self.add(key, 1)
    }
    pub fn add(&mut self, key: &str, n: u64) {
        if let Some(c) = self.counters.get_mut(key) {
            *c += n;
        } else {
            self.counters.insert(key.to_string(), n);
        }
    }
    pub fn max(&mut self, key: &str, v: f64) {
        let e = self.maxima.entry(key.to_string()).or_insert(f64::MIN);
        if v > *e {
            *e = v;
        }
    }
    /// remember a distinct non-trivial case by the hash of its content
    pub fn nontrivial(&mut self, content: &[u8]) {
        self.hashes.insert(fnv(content));
    }
    pub fn emit(&mut self, v: Value) {
        let _ = writeln!(self.out, "{}", v);
    }
    /// Report a violation. `sig` = "<kind>|<operation>|<shape features>" (the
    /// property id is prefixed here). At most 5 witnesses per signature are logged.
    pub fn violation(&mut self, sig: &str, detail: Value) {
        self.violations += 1;
        // signatures are single tokens (they are matched literally against known_findings.txt)
        let full = format!("{}|{}", self.prop, sig).replace(' ', "_");
        let n = self.viol_per_sig.entry(full.clone()).or_insert(0);
        *n += 1;
        if *n <= 5 || self.replay_mode {
            let v = json!({"t":"viol","prop":self.prop,"sig":full,"lane":self.lane,"idx":self.idx,
                "seed":self.seed,"tier":self.tier,"detail":detail});
            self.emit(v);
        }
    }
    /// The oracle could not decide or disagrees with its independent cross-check:
    /// the driver turns this into an inconclusive run (never a verdict).
    pub fn harness_error(&mut self, what: &str, detail: Value) {
        self.add("harness-errors", 1);
        if self.counters["harness-errors"] <= 10 {
            let v = json!({"t":"harness","what":what,"lane":self.lane,"idx":self.idx,"detail":detail});
            self.emit(v);
        }
    }
    /// Log a sample of a held case (first 3 per lane).
    pub fn sample(&mut self, detail: impl FnOnce() -> Value) {
        let n = self.samples_per_lane.entry(self.lane.clone()).or_insert(0);
        if *n < 3 || self.replay_mode {
            *n += 1;
            let v = json!({"t":"sample","lane":self.lane,"idx":self.idx,"detail":detail()});
            self.emit(v);
        }
    }
    pub fn finish(&mut self) {
        let sigs: BTreeMap<String, u64> = self.viol_per_sig.clone();
        let v = json!({"t":"summary","prop":self.prop,"counters":self.counters,"maxima":self.maxima,
            "distinct_exact":self.distinct_exact,"distinct_hashed":self.hashes.len(),
            "violations":self.violations,"sigs":sigs});
        self.emit(v);
        let _ = self.out.flush();
    }
}

/// One lane of a monitor: `count(tier)` cases, each reproducible from its index.
pub struct Lane {
    pub name: &'static str,
    pub count: fn(&Ctx) -> u64,
    pub run: fn(&mut Ctx, u64),
}

pub fn clip(s: &str) -> String {
    if s.len() <= 400 {
        s.to_string()
    } else {
        let mut e = 400;
        while !s.is_char_boundary(e) {
            e -= 1;
        }
        format!("{}…[{} bytes]", &s[..e], s.len())
    }
}

// ---------------------------------------------------------------- stack high-water probe

/// Runs `f` on a fresh thread whose stack was painted with a pattern beforehand and returns the number of bytes of
/// stack `f` dirtied (its deepest frame), or `None` where the probe cannot run (Miri, sanitizer lanes:
/// `VMON_NO_STACKPROBE`). A run that needs more than the thread's 8 MiB hits the guard page: the process dies and
/// the driver reports the death with the in-flight case. Panics inside `f` are contained and ignored here (the
/// step/allocation passes report them).
pub fn stack_high_water<F: FnOnce() + Send>(f: F) -> Option<usize> {
    if cfg!(miri) || std::env::var_os("VMON_NO_STACKPROBE").is_some() {
        return None;
    }
    const STACK: usize = 8 << 20;
    const PAINT: usize = 7 << 20;
    const PAT: u64 = 0x5a5a_a5a5_c3c3_3c3c;
    #[inline(never)]
    fn call<F: FnOnce()>(f: F) {
        let _ = std::panic::catch_unwind(std::panic::AssertUnwindSafe(f));
    }
    std::thread::scope(|sc| {
        std::thread::Builder::new()
            .stack_size(STACK)
            .spawn_scoped(sc, move || {
                let marker = 0u64;
                let sp = (std::hint::black_box(&marker) as *const u64 as usize) & !7;
                let lo = sp - PAINT;
                let hi = sp - 4096;
                let mut p = lo;
                while p < hi {
                    unsafe { (p as *mut u64).write_volatile(PAT) };
                    p += 8;
                }
                call(f);
                let mut p = lo;
                while p < hi {
                    if unsafe { (p as *const u64).read_volatile() } != PAT {
                        break;
                    }
                    p += 8;
                }
                sp - p
            })
            .ok()
            .and_then(|h| h.join().ok())
    })
}
