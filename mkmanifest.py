#!/usr/bin/env python3
"""Regenerate MANIFEST.json from the table below (keeps it valid at all times)."""
import json, subprocess
CLAIMED = {
 "C01": ("differential/round-trip oracle over exhaustive short-string sweep, grammar+mutation generation, corpora and a fault-injecting reader",
         "Byte-equality and strict/relaxed equivalence are checked online on every execution: all strings of length <=6 (quick) / <=7 (thorough) over 16 lexer-class representatives, generated+mutated documents, repository corpora, chunked/interrupted/failing readers. Held = no counterexample among the executions listed in the evidence."),
 "C02": ("totality monitor: every entry point of a 65-row table called under panic capture, a logical step budget (hook) and an allocation counter; sweeps, grammar prefixes/deletions, typed documents with hostile values, scaling series",
         "Each call of each text-parsing entry point is executed under catch_unwind with the parser step counter armed (256(n+16)+4(n+16)^2) and allocation counted; a panic, budget overrun, fitted growth exponent > 2.2 on adversarial families, or process death (attributed through an in-flight slot and confirmed on solitary replay) is a violation. Held = none observed on the listed executions."),
 "C03": ("reference-model oracle: generated well-formed documents (model known by construction, cross-checked by an independent line scanner), exhaustive line-kind sequences, single-line corruptions",
         "The strict reader's paragraphs/items/keys/get/get_all/contains_key and Paragraph::from_str are compared online with the generator's model on every generated document, on every well-formed sequence of <=6 (quick) / <=7 (thorough) lines over 8 line kinds (exhaustive), and every line of generated documents is replaced by 6 malformed shapes which must be rejected."),
 "C06": ("differential oracle lossy vs lossless reader over exhaustive short-string sweep, mutated documents, corpora; joint acceptance on generated well-formed documents",
         "Both readers run on every string of length <=5 (quick) / <=7 (thorough) over 16 class representatives and on generated/mutated/corpus documents; whenever both accept, paragraph structure, field names and non-blank value lines are compared; generated well-formed documents must be accepted by both and match the generator's model."),
 "C08": ("reference-model oracle: generated canonical lossy documents printed and re-read by both readers; list-model state machine over get/set/insert/remove histories; exhaustive small catalogue",
         "Each generated lossy document is printed, re-read by the lossy reader (equality, identical second print, exactly one blank line between paragraphs) and by the lossless reader (same content); edit histories over colliding names are checked step by step against a Vec<(name,value)> model."),
 "C04": ("model-based state-machine monitor over edit histories: list model, live/early-handle/fresh-handle reads, strict re-read and byte-level locality via an independent line scanner after every step; random histories + exhaustive short-history catalogue",
         "After every set/insert/remove/rename the live items (through the handle used, handles taken before the history and a fresh traversal), the strict re-read of the printed document and the bytes outside the touched field are compared with a Vec<Vec<(name,value)>> model; histories start from generated documents of every layout, from programmatically built paragraphs, and all histories of length <=2 (quick) / <=3 (thorough) over a 6-document catalogue are enumerated."),
 "C05": ("model-based state-machine monitor over paragraph add/insert/remove histories interleaved with field edits: list model, re-read, other-paragraph and comment preservation via an independent line scanner; random histories + exhaustive catalogue",
         "After every add/insert(i)/remove(i) (every index incl. beyond the end) the live paragraph list, the strict re-read, the text of all other paragraphs and the ordered comment lines are compared with the model; returned handles are kept and checked later; histories start from the empty document and generated documents of every layout; all histories of length <=3 (quick) / <=4 (thorough) over an 18-operation alphabet on 7 start documents are enumerated."),
 "C07": ("invariant + reference-model oracle on wrap_and_sort results over generated documents x settings product (indentation, empty-first-line, width, comparators, formatters incl. logged formatter calls), at entry/paragraph/document/control-file level; idempotence by double application",
         "For every generated (document, settings) pair the result is printed, strictly re-read and compared with what the returned object reports and with the input model (multiset/order of paragraphs and fields, value lines or the logged formatter output, comment lines in front of the same field/paragraph, exact continuation indentation, single blank-line separation) and the reformatting is applied a second time; control files additionally check Source-first/Package order, Uploaders splitting and agreement of relation fields with the crate's relation normaliser."),
 "C09": ("round-trip/differential oracle over exhaustive short-string sweep of the relation token alphabet, every prefix and structural-character deletion of generated fields, mutated fields",
         "parse_relaxed(s, allow) for allow in {false,true} must print s; from_str must succeed exactly when the relaxed reader (no substvars) is clean and then print s; Entry/Relation::from_str results must print a substring of s. Checked on every string of length <=4 (quick) / <=6 (thorough) over 23 token representatives and on generated fields with all prefixes, single-token deletions and random mutations."),
 "C10": ("reference-model oracle: grammar-generated relationship fields (model known by construction) compared with the lossless accessors and with the lossy reader; full factorial over a relation's optional parts",
         "For each generated field the lossless reader must report no error and entries/alternatives/name/archqual/operator/version (as text and as Debian version)/architectures with negation/profile groups/substvars must equal the generator's model; the lossy reader must accept substvar-free fields and give the same structure. 3750-row factorial over archqual x version shape x operator x architectures x profile groups x position, plus random fields with free whitespace."),
 "C11": ("model-based state-machine monitor over relation edit histories (15 operations, operands built by 5 constructors) against a list-of-lists model: live accessors, strict re-read, separator-surplus and untouched-entry invariants after every step; random histories + exhaustive short-history catalogue",
         "After every push/insert/replace/remove (field and entry level) and every set_version/drop_constraint/set_archqual/set_architectures/add_profile through get_entry/get_relation handles, the root's printed text must parse strictly (with substvars when present) to the model, the live accessors must report the model, the count of ',' and '|' beyond what the items need must not grow, and untouched entries and substvars keep their text. Start states: empty field (3 constructors), generated fields of all layouts; all histories of length <=2 (quick) / <=3 (thorough) over 22 operations x 6 fields."),
 "C12": ("exhaustive decision table against an independent ladder model of Debian version order, every evaluator and lookup form; random multi-entry fields x all 64 installation assignments",
         "All 540 (operator or none) x required version x installed (absent or any of 9 ladder versions with epoch, revision, '~') single-relation cases and random fields of <=3 entries x <=3 alternatives over 3 packages under all 4^3 assignments are evaluated by lossless Relations/Entry::satisfied_by and lossy Relations/Relation::satisfied_by through closure, HashMap and (name,version) lookups and compared with the model's answer; the ladder's order is itself checked against debversion first."),
 "C13": ("invariant oracle on Relations::wrap_and_sort over grammar-generated fields: canonical text, crate Ord sortedness, multiset equality with the generator's model, strict re-read, idempotence",
         "For every generated field (all layouts, empty entries, epochs, negated architectures, multi-term profile lists, substvars) the normalised text must be single-line canonical text of its own structure, sorted under the crate's public Ord, free of empty entries, strictly parseable, denote the same multiset of entries/alternatives/parts and substvars as the generator's model, agree with what the returned object reports, and be a fixed point."),
 "C14": ("round-trip and conversion oracle over lossy Relation/Relations values built from components (full factorial + random): lossy print/parse equality, lossless reading of the printed text, lossy<->lossless conversion equality and print agreement",
         "768-row factorial over name x version x archqual x architectures x profile lists plus random fields: to_string() must re-parse (lossy) to an equal value and be read by the lossless reader as the same structure; lossless::Relation::from(x) must print the same text and convert back to x; Entry <-> Vec<lossy::Relation> likewise."),
 "C18": ("codec table monitor: exhaustive enumerations in both directions, rejection probes (all other keywords, case/padding variants, exhaustive short strings), generated records/VCS/DEP-3/licence/signed-by values; parse(print(v))==v and print(parse(canonical))==canonical",
         "Every variant of the 7 closed enumerations round-trips in both directions; every keyword of every other enumeration with case, padding and suffix variants and every string of length <=3 (quick) / <=4 (thorough) over 23 symbols must be rejected unless it is in the type's set; checksum records, package-list entries (print determinism across instances), changes files, ParsedVcs/Vcs over all branch/subpath combinations, DEP-3 values with each category prefix (also read through the lossless header), licences, signed-by values and build profiles are generated and round-tripped."),
 "C19": ("reference-model oracle for clear-sign unwrapping: generated messages (payload kinds incl. marker look-alikes and deb822 text), every line truncation with/without final newline, five kinds of trailing junk, unsigned pass-through, every line cut of the repository's InRelease file",
         "For each generated message the unwrapped payload and concatenated signature must equal the generator's parts; every cut after a line must yield exactly the error of the phase the cut falls in (missing payload / missing signature / truncated signature), appended lines must yield junk-after-signature, and text not starting with the marker must come back unchanged with no signature."),
 "C17": ("reference-model oracle: independent backtracking DEP-5 matcher vs FilesParagraph::matches (lossless and lossy) over exhaustive pattern x path products; generated copyright files x lookups against a last-match/licence-resolution model; non-machine-readable variants",
         "All patterns of <=2 (quick) / <=3 (thorough) symbols over 19 pattern symbols (literals, regex metacharacters, *, ?, the three escapes, /) are matched against all 1464 paths of <=3 symbols over 11 path symbols and compared with a 10-line reference matcher; generated copyright files (1-6 Files paragraphs, patterns on one or several lines, inline and stand-alone licences in any order) are queried with 20 paths each and find_files / find_license_for_file / iter_files / iter_licenses of both readers compared with the model; six kinds of text not starting with a Format field must be refused by all three readers."),
 "C16": ("reference-model oracle on derived conversions: a harness-local struct spanning every field shape of the macro plus all 12 shipped deriving structs (field tables), both paragraph back-ends; round trip, key order, update_paragraph on prior paragraphs with foreign fields/comments/stale fields, error probes",
         "For generated values of the 11-field test struct (mandatory/optional x default/renamed key x default/custom codec over String, integers, bool, list, enum) and generated valid paragraphs of every shipped deriving struct: from_paragraph(to_paragraph(x)) equals x through lossy and lossless paragraphs, items are identical for both back-ends and in declaration order with absent options omitted, update_paragraph reads back as the value, removes absent options and leaves foreign fields and comment lines byte-identical; every field of every struct is probed missing and (where its type can refuse) invalid, and the error must name the field."),
 "C20": ("print/reparse stability and differential oracle against the lossless reader over documents of 9 typed kinds generated from field tables; structurally invalid variants must be rejected",
         "Documents of each lossy typed kind (control file, copyright file, apt Release/Sources/Packages stanza, buildinfo, removal record, DEP-3 header incl. From/Subject spelling, APT sources list) are generated from field tables with optional fields, multi-line values, comments, several paragraphs in any permitted order; the value must re-parse from its printed form to equal paragraphs and print identically, every known field must equal what deb822_lossless::Deb822 shows for the paragraph in the same role, and documents with no/two source paragraphs, a paragraph of neither kind, no header/Format or a missing mandatory field must be refused."),
}
TODO = {}
props = [json.loads(l) for l in open("/verif/properties.jsonl")]
hooks_commits = subprocess.run(["git","-C","/repo","log","--format=%h","--grep=^verif-hooks"],stdout=subprocess.PIPE,text=True).stdout.split()
checks=[]; na=[]
for p in props:
    i=p["id"]
    if i in CLAIMED:
        tech, text = CLAIMED[i]
        checks.append({
          "property_id": i,
          "quick_cmd": "./check %s quick" % i,
          "thorough_cmd": "./check %s thorough" % i,
          "evidence_file": "evidence/%s.json" % i,
          "replay_cmd_template": "./check replay {path}",
          "engine": "vmon",
          "level_claimed": {"category":"exploration","text":text,"design_ref":"DESIGN.md §7."+i},
          "level_note": "Trusted: the reference models/generators in harness/src, rustc/cargo, the dependencies as observed through the public API. Says nothing about inputs outside the recorded workloads.",
          "technique": "runtime monitoring: " + tech,
        })
    else:
        na.append({"property_id": i, "reason": TODO.get(i, "monitor not built yet in this revision of /verif (planned in DESIGN.md §7); no claim is made")})
m = {
 "version": 1,
 "setup_cmd": "./check setup",
 "hooks": {
   "guard": "cargo feature verif-hooks (deb822-lossless; forwarded by debian-control)",
   "enable": "the harness crate /verif/harness depends on /repo by path with features = [\"verif-hooks\"]",
   "baseline_off_cmd": "cd /repo && cargo nextest run --workspace --no-fail-fast --offline || cargo test --workspace --no-fail-fast --offline",
   "source_commits": hooks_commits,
   "add_only": True,
 },
 "engines": [{"name":"vmon","path":"harness","serves_properties":[c["property_id"] for c in checks],
              "kind_free_text":"Rust harness linking /repo's working tree: workload generators, reference-model oracles, event logs; Python driver ./check shards it over 16 cores, contains crashes/hangs, classifies signatures against known_findings.txt and writes evidence"}],
 "checks": checks,
 "not_applicable": na,
 "notes": "Exit 2 from a check means inconclusive (build failure, dead worker that could not be attributed, too few observations) and is never a verdict.",
}
json.dump(m, open("/verif/MANIFEST.json","w"), indent=1)
print("checks:", [c["property_id"] for c in checks], "n/a:", len(na))
